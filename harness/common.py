"""Common machinery of the nsl verification framework (see DESIGN.md section 5).

  * snapshot of /repo's working tree into a scratch directory (hooks enabled),
  * TLC runner (same class path as the `tlc` wrapper, -Xss64m) and output parser,
  * verdict protocol (one JSON record per PrintT line),
  * known findings, VIOLATION / KNOWN-FINDING lines, replay files,
  * evidence writer.

Exit codes: 0 property held on everything explored (known findings are printed),
1 violation not listed in known_findings.json, 2 machinery failure.
"""
import contextlib
import io
import json
import os
import re
import shutil
import signal
import subprocess
import sys
import time
from pathlib import Path

VERIF = Path(__file__).resolve().parent.parent
SPEC = VERIF / "spec"
REPO = Path(os.environ.get("VERIF_REPO", "/repo"))
TLA_CP = "/opt/veriftools/tla/tla2tools.jar:/opt/veriftools/tla/CommunityModules-deps.jar"
GUARD = "NSL_VERIF"


class Machinery(Exception):
    """The framework itself failed (TLC error, missing verdict, hook silent ...)."""


class Ctx:
    """One run of one check."""

    def __init__(self, prop, tier, seed):
        self.prop = prop
        self.tier = tier
        self.seed = seed
        self.t0 = time.time()
        root = Path(os.environ.get("VERIF_SCRATCH", "/var/tmp"))
        self.scratch = root / f"nslverif.{prop}.{os.getpid()}"
        if self.scratch.exists():
            shutil.rmtree(self.scratch)
        self.scratch.mkdir(parents=True)
        self.repo = self.scratch / "repo"
        self.states = 0
        self.transitions = 0
        self.distinct = 0
        self.tlc_runs = []
        self.violations = []      # dicts: {key, what, case}
        self.known = []           # matched known findings
        self.notes = []
        self.coverage_extra = {}
        self._n = 0

    # ------------------------------------------------------------ snapshot
    def snapshot(self):
        """Copy /repo's *working tree* (not HEAD) and import nsl from the copy."""
        subprocess.run(
            ["rsync", "-a", "--delete", "--exclude", ".git", "--exclude", "__pycache__",
             "--exclude", "*.nslir", "--exclude", "*.wasm",
             str(REPO) + "/", str(self.repo) + "/"], check=True)
        os.environ[GUARD] = "1"
        os.environ.setdefault("PYTHONHASHSEED", "0")
        sys.path.insert(0, str(self.repo))
        os.chdir(self.repo)
        # warm the parser tables once, serially, before any worker forks
        with quiet():
            from nsl import parser  # noqa
            parser.NslParser()
        return self.repo

    def cleanup(self):
        os.chdir("/")
        shutil.rmtree(self.scratch, ignore_errors=True)

    def tmp(self, name):
        self._n += 1
        return self.scratch / f"{self._n:03d}-{name}"

    # ------------------------------------------------------------ TLC
    def tlc(self, module, cfg, env=None, workers=16, timeout=3000, simulate=None,
            depth=None, coverage=False, allow_violation=False, seedarg=None):
        """Run TLC on spec/<module>.tla with the given cfg text.
        Returns TlcResult; raises Machinery on any TLC error."""
        cfgp = self.tmp(module + ".cfg")
        cfgp.write_text(cfg)
        outp = self.tmp(module + ".out")
        md = self.tmp(module + ".md")
        cmd = ["java", "-Xss64m", "-XX:+UseParallelGC", "-cp", TLA_CP, "tlc2.TLC",
               "-workers", str(workers), "-metadir", str(md), "-noGenerateSpecTE",
               "-config", str(cfgp)]
        if simulate:
            cmd += ["-simulate", simulate]
            if depth:
                cmd += ["-depth", str(depth)]
            if seedarg is not None:
                cmd += ["-seed", str(seedarg)]
        if coverage:
            cmd += ["-coverage", "1"]
        cmd += [str(SPEC / (module + ".tla"))]
        e = dict(os.environ)
        if env:
            e.update({k: str(v) for k, v in env.items()})
        t = time.time()
        with open(outp, "wb") as f:
            try:
                p = subprocess.run(cmd, stdout=f, stderr=subprocess.STDOUT, env=e,
                                   cwd=str(self.scratch), timeout=timeout)
                rc = p.returncode
            except subprocess.TimeoutExpired:
                raise Machinery(f"TLC timed out after {timeout}s on {module}")
        res = TlcResult(module, outp, rc, time.time() - t)
        shutil.rmtree(md, ignore_errors=True)
        self.states += res.generated
        self.distinct += res.distinct
        self.transitions += res.generated  # TLC: every generated state is one evaluated transition
        self.tlc_runs.append({"module": module, "generated": res.generated,
                              "distinct": res.distinct, "wall_s": round(res.wall, 2)})
        if res.errors and not allow_violation:
            raise Machinery(f"TLC reported errors on {module}: {res.errors[:3]} (log {outp})")
        return res

    # ------------------------------------------------------------ verdict bookkeeping
    def violation(self, key, what, case):
        self.violations.append({"key": key, "what": what, "case": case})


class TlcResult:
    _gen = re.compile(r"^(\d+) states generated, (\d+) distinct states found")

    def __init__(self, module, outp, rc, wall):
        self.module = module
        self.path = outp
        self.rc = rc
        self.wall = wall
        self.records = []
        self.errors = []
        self.generated = 0
        self.distinct = 0
        self.coverage = {}
        cov = re.compile(r"^<(\w+) line (\d+), col \d+ to line \d+, col \d+ of module (\w+)>: (\d+):(\d+)")
        with open(outp, "r", errors="replace") as f:
            for line in f:
                s = line.rstrip("\n")
                if s.startswith('"{') or s.startswith('"['):
                    try:
                        self.records.append(json.loads(json.loads(s)))
                    except Exception:
                        self.errors.append("unparseable verdict line: " + s[:200])
                    continue
                m = self._gen.match(s)
                if m:
                    self.generated = int(m.group(1))
                    self.distinct = int(m.group(2))
                    continue
                m = re.match(r"^The number of states generated: (\d+)", s)      # simulation mode
                if m:
                    self.generated = self.distinct = int(m.group(1))
                    continue
                if s.startswith("Error:") or "Exception" in s and "at tlc2" not in s and s.startswith("java."):
                    self.errors.append(s)
                m = cov.match(s)
                if m:
                    self.coverage[m.group(1)] = self.coverage.get(m.group(1), 0) + int(m.group(5))
        if rc != 0 and not self.errors:
            self.errors.append(f"TLC exit code {rc}")


@contextlib.contextmanager
def quiet():
    buf = io.StringIO()
    with contextlib.redirect_stdout(buf), contextlib.redirect_stderr(buf):
        yield buf


class CaseTimeout(Exception):
    pass


def _alarm(*a):
    raise CaseTimeout()


@contextlib.contextmanager
def time_limit(seconds):
    """Wall-clock guard around one compilation / straight-line case.  Programs are stopped by STEP budgets; this guard only exists so
    that a compiler that hangs is noticed at all.  On a loaded machine a 120 s limit was hit by a compilation that takes 0.3 s (thorough
    sweep, seed 13), so the limit is never shorter than 15 minutes: load must not turn into a verdict."""
    seconds = max(seconds, 900)
    old = signal.signal(signal.SIGALRM, _alarm)
    signal.setitimer(signal.ITIMER_REAL, seconds)
    try:
        yield
    finally:
        signal.setitimer(signal.ITIMER_REAL, 0)
        signal.signal(signal.SIGALRM, old)


# ---------------------------------------------------------------- known findings
def load_findings(prop):
    p = VERIF / "known_findings.json"
    if not p.exists():
        return []
    data = json.loads(p.read_text())
    return [f for f in data.get("findings", []) if f["property"] == prop]


def finish(ctx, *, level, evaluations, distinct_nontrivial, rule, samples, exhaustive=False,
           traces_validated=0, assumptions=(), extra=None):
    """Join violations with the known findings, print the verdict lines, write the
    evidence file and return the exit code."""
    findings = load_findings(ctx.prop)
    fkeys = {f["key"]: f for f in findings}
    new = []
    seen_known = {}
    for v in ctx.violations:
        f = fkeys.get(v["key"])
        if f is not None:
            seen_known.setdefault(v["key"], []).append(v)
        else:
            new.append(v)
    for k, vs in seen_known.items():
        print(f"KNOWN-FINDING: property={ctx.prop} {fkeys[k]['what']} [key={k}; {len(vs)} case(s) this run]")
    rc = 0
    if new:
        rc = 1
        rdir = VERIF / ("replay" if REPO == Path("/repo") else "replay-seeded")     # runs against another tree (seeded changes) leave the committed files alone
        rdir.mkdir(exist_ok=True)
        # group by key, save at most 5 replay files, print one line per saved file
        bykey = {}
        for v in new:
            bykey.setdefault(v["key"], []).append(v)
        shown = 0
        for k, vs in bykey.items():
            if shown >= 8:
                break
            shown += 1
            safe = re.sub(r"[^A-Za-z0-9_.-]+", "_", k)[:80]
            path = rdir / f"{ctx.prop}-{safe}.json"
            path.write_text(json.dumps({"property": ctx.prop, "key": k, "what": vs[0]["what"],
                                        "count": len(vs), "case": vs[0]["case"],
                                        "more": [x["case"] for x in vs[1:4]]}, indent=1, default=str))
            print(f"VIOLATION property={ctx.prop} replay={path}")
            print(f"  what: {vs[0]['what']}  ({len(vs)} case(s), key={k})")
        if len(bykey) > shown:
            print(f"  ... and {len(bykey) - shown} more distinct violation keys")
    cov = {
        "states": int(ctx.states), "transitions": int(ctx.transitions),
        "distinct_states": int(ctx.distinct),
        "traces_validated_against_impl": int(traces_validated),
        "evaluations": int(evaluations), "distinct_nontrivial": int(distinct_nontrivial),
        "rule": rule, "samples": samples[:6], "exhaustive": bool(exhaustive),
        "tlc_runs": ctx.tlc_runs,
        "known_findings_seen": sorted(seen_known),
        "new_violation_keys": sorted({v["key"] for v in new})[:50],
    }
    if level == "other":
        cov["explanation"] = rule
    if extra:
        cov.update(extra)
    cov.update(ctx.coverage_extra)
    if ctx.notes:
        cov["notes"] = [str(n)[:600] for n in ctx.notes[:20]]
    ev = {"property_id": ctx.prop, "tier": ctx.tier, "seed": int(ctx.seed), "level": level,
          "coverage": cov, "assumptions": list(assumptions),
          "wall_s": round(time.time() - ctx.t0, 2), "violations": len(new)}
    edir = VERIF / ("evidence" if REPO == Path("/repo") else "evidence-seeded")
    edir.mkdir(exist_ok=True)
    (edir / f"{ctx.prop}.json").write_text(json.dumps(ev, indent=1, default=str))
    print(f"{ctx.prop} {ctx.tier}: evaluations={evaluations} states={ctx.states} "
          f"violations={len(new)} known={len(seen_known)} wall={ev['wall_s']}s")
    return rc


# ---------------------------------------------------------------- real-code helpers
def compile_source(src, options=None):
    """Run the real compiler. Returns ("ok", Result) | ("reject", why) where why tells
    how the compiler refused: 'none' (returned None), 'exit' (parser sys.exit),
    'raise:<Class>' (exception)."""
    from nsl import Compiler
    with quiet():
        try:
            r = Compiler.Compiler().Compile(src, dict(options or {}))
        except SystemExit:
            return ("reject", "exit")
        except CaseTimeout:
            raise
        except BaseException as e:  # noqa
            return ("reject", "raise:" + type(e).__name__ + ":" + str(e)[:120])
    if r is None:
        return ("reject", "none")
    return ("ok", r)


def compile_traced(src, options=None):
    """compile_source plus what the verification hooks saw: the pass / stage events of the
    pipeline and the diagnostics raised.  Returns (status, result_or_why, info) with
    info = {failed_pass, last_stage, events, messages, hook_ok}."""
    from nsl import Compiler, Errors
    ev, msgs = [], []
    Compiler._verif_events = ev
    Errors._verif_messages = msgs
    try:
        st, r = compile_source(src, options)
    finally:
        Compiler._verif_events = None
        Errors._verif_messages = None
    failed = [e[3] for e in ev if e[0] == "pass-fail"]
    stages = [e[1] for e in ev if e[0] == "stage"]
    info = {"failed_pass": failed[0] if failed else None, "last_stage": stages[-1] if stages else None,
            "events": ev, "messages": msgs, "hook_ok": bool(ev)}
    return st, r, info


def link_vm(result):
    from nsl import LinearIR, VM
    l = LinearIR.Linker()
    l.AddModule(result.IRModule)
    return VM.VirtualMachine(l.Link())


def enc_value(v):
    """Project a VM value onto the specification's tagged values
    (ints; floats as exact dyadic rationals n * 2^-e)."""
    if isinstance(v, bool):
        return {"t": "int", "v": int(v)}
    if isinstance(v, int):
        return {"t": "int", "v": v} if abs(v) < 2 ** 30 else {"t": "big", "r": str(v)}
    if isinstance(v, float):
        if v != v or v in (float("inf"), float("-inf")):
            return {"t": "nan", "r": repr(v)}
        n, d = v.as_integer_ratio()
        e = d.bit_length() - 1
        if abs(n) < 2 ** 30 and e <= 24:
            return {"t": "float", "n": n, "e": e}
        return {"t": "inexact", "r": repr(v)}
    if isinstance(v, (list, tuple)):
        return {"t": "seq", "c": [enc_value(x) for x in v]}
    if isinstance(v, dict):
        return {"t": "struct", "f": {k: enc_value(x) for k, x in v.items()}}
    if v is None:
        return {"t": "none"}
    return {"t": "other", "r": repr(v)[:80]}


def replay_vm_case(ctx, data):
    """--replay for the checks whose cases are (source, arguments, globals before, prescribed result): compiles the saved source with
    the tree under test, runs the saved invocation and compares with the prescription stored in the replay file."""
    import nslast as A
    case = data.get("case") or {}
    ref = (case.get("reference") or {})
    if not isinstance(case.get("source"), str) or "ret" not in ref or not isinstance(case.get("args"), dict):
        print("(this replay file holds no single VM invocation; re-run the check)")
        return 0
    st, r = compile_source(case["source"], {"optimize": bool(case.get("optimize", False))})
    if st != "ok":
        print(f"REPLAY: the compiler refuses the program now ({r})")
        return 1
    obs = A.run_vm(A.link(r), "f", case["args"], case.get("globals_before") or {}, budget=300000)
    same = obs["ok"] and ref.get("status") == "done" and A.same(ref["ret"], obs["ret"])
    print(f"REPLAY: VM now returns {A.show_py(obs.get('ret')) if obs['ok'] else obs.get('exc')}; prescribed {json.dumps(ref.get('ret'))} -> {'agrees' if same else 'still differs'}")
    if not same:
        print(f"VIOLATION property={ctx.prop} replay={data.get('_path', '?')}")
    return 0 if same else 1


def main_wrapper(fn, prop, mod=None):
    import argparse
    ap = argparse.ArgumentParser()
    ap.add_argument("--tier", default=os.environ.get("VERIF_TIER", "quick"), choices=["quick", "thorough"])
    ap.add_argument("--replay")
    ap.add_argument("--selftest", action="store_true")
    a = ap.parse_args(sys.argv[2:])
    if a.replay:
        a.replay = os.path.abspath(a.replay)
    seed = int(os.environ.get("VERIF_SEED", "0"))
    ctx = Ctx(prop, a.tier, seed)
    try:
        ctx.snapshot()
        if a.replay:
            data = json.loads(Path(a.replay).read_text())
            data["_path"] = a.replay
            print(json.dumps({k: v for k, v in data.items() if k not in ("more", "_path")}, indent=1, default=str))
            if mod is not None and hasattr(mod, "replay"):
                rc = mod.replay(ctx, data)
            else:
                print("(no single-case replay for this check: re-run ./check", prop, "to re-evaluate the whole family)")
                rc = 0
        elif a.selftest:
            if mod is not None and hasattr(mod, "selftest"):
                rc = mod.selftest(ctx, a)
            else:
                print("no selftest for", prop)
                rc = 0
        else:
            rc = fn(ctx, a)
    except Machinery as e:
        print(f"MACHINERY-FAILURE property={prop}: {e}")
        rc = 2
    except Exception:
        import traceback
        traceback.print_exc()
        print(f"MACHINERY-FAILURE property={prop}: unexpected exception in the harness")
        rc = 2
    finally:
        ctx.cleanup()
    sys.stdout.flush()
    sys.exit(rc)
