"""C12 - no two visible variables share a name; references bind lexically.

Binding (A) + refinement: spec/MC_C12.tla enumerates scope structures (a function with a
parameter and a global; declarations and uses of four names inside blocks, if, if/else,
while, do and for headers), renders each as a program, decides acceptance with
NslStatic!NamesOk (cross-checked against a site-by-site formulation) and runs the language
semantics NslSem: every use increments the variable it binds to and folds it into the
result.  The driver compiles every program with the real compiler (both optimisation
levels; accept/reject compared) and runs the accepted ones on the real VM (returned value
and final global compared).
"""
import multiprocessing as mp

import common
import nslast as A
import semrun

LABELS = {
    "accepts_bad": ("accepts-invalid-names", "a redeclaration of a visible name, or a use of a name that is not visible, is accepted"),
    "rejects_good": ("rejects-legal-program", "every declaration uses a fresh or out-of-scope name and every use is visible, yet the compiler refuses the program"),
    "entry": "f", "budget": 100000,
}


def run(ctx, args):
    size = 1 if ctx.tier == "quick" else 2
    cfg = (f"CONSTANTS Size = {size}\nINIT Init\nNEXT Next\nINVARIANT FormulationsAgree\nINVARIANT AcceptedRuns\n"
           "INVARIANT Finished\nINVARIANT Report\nPROPERTY FrameIsolation\nCHECK_DEADLOCK FALSE\n")
    res = ctx.tlc("MC_C12", cfg, timeout=6000)
    items = sorted((r["key"], [r]) for r in res.records)
    if len(items) < 9664 or len({k for k, _ in items}) != len(items):
        raise common.Machinery(f"unexpected number of enumerated programs: {len(items)}")
    jobs = [(LABELS, items[i:i + 40]) for i in range(0, len(items), 40)]
    with mp.Pool(16) as pool:
        results = pool.map(semrun.conformance_work, jobs)
    counts, evals = semrun.tally(ctx, results)
    if not ctx.violations:
        for k in ("ok-accept", "run-agree"):
            if counts.get(k, 0) == 0:
                raise common.Machinery(f"vacuous run: no {k} outcome")
        if not any(k.startswith("ok-reject") for k in counts):
            raise common.Machinery("vacuous run: nothing rejected")
    accepted = sum(1 for k, v in items if v[0]["ok"])
    # non-trivial: at least one declaration inside a nested scope or a for header
    nontriv = sum(1 for k, v in items if '"W"' in k or '"F"' in k or '"IE"' in k)
    samples = []
    for k, v in items[11::max(1, len(items) // 4)][:4]:
        samples.append({"source": A.pp(v[0]["prog"]), "language_accepts": v[0]["ok"], "reference": {x: v[0][x] for x in ("status", "ret", "globals")}})
    return common.finish(
        ctx, level="model_checking", evaluations=evals, distinct_nontrivial=nontriv,
        rule=f"TLC enumerates {len(items)} function bodies: one item (declaration D(n) / use U(n) of n in p,g,x,y; block, if, while, do around one or two of them; "
             "for with header variable x, y or p; if/else) optionally with a leaf before or after" + ("" if size == 1 else ", plus a second nesting level over x, g") +
             "; NamesOk decides acceptance (cross-checked with NamesOk2), NslSem runs each program (p = 5, g = 10). Each program is compiled at both optimisation "
             "levels and, when accepted, executed on the VM. distinct_nontrivial = bodies with a nested scope.",
        samples=samples, exhaustive=True, traces_validated=counts.get("run-agree", 0),
        assumptions=["rejection = Compile returns None or raises", "parameter/global name clashes and un-braced declarations are not enumerated (the statement does not settle them)"],
        extra={"outcome_counts": counts, "programs": len(items), "accepted_by_language": accepted})
