"""Per-property manifest data (single source of truth for tools/mkmanifest.py)."""

ALL = [f"C{i:02d}" for i in range(1, 21)]

_TRUST = ("Trusted: TLC, the author's reading of the property statement as written in the TLA+ module, "
          "the Python driver that renders cases and projects results (kept free of semantics: it never decides what a program means). ")

PROPS = {
    "C08": dict(
        claimed=True, level="model_checking",
        technique="TLA+ operator-precedence machine (NslParse) enumerated exhaustively by TLC; every enumerated case replayed into the real parser/compiler/VM (spec->code conformance)",
        text="TLC enumerates every ordered pair and triple of the 13 binary operators with every single parenthesis group, runs the "
             "shift/reduce machine of spec/NslParse.tla on each (checking it against the recursive definition, the precedence law and operand order) "
             "and prints the prescribed tree and the values under six operand assignments; the driver renders each case in five syntactic contexts "
             "and several layouts and compares the real parser's tree and the real VM's value. Exhaustive over the stated space, so model checking is the right level.",
        note=_TRUST + "Operands are int parameters; values are compared only where the expression is inside the property's numeric domain."),
}
