"""Per-property manifest data (single source of truth for tools/mkmanifest.py)."""

ALL = [f"C{i:02d}" for i in range(1, 21)]

_TRUST = ("Trusted: TLC, the author's reading of the property statement as written in the TLA+ module, "
          "the Python driver that renders cases and projects results (kept free of semantics: it never decides what a program means). ")

PROPS = {
    "C01": dict(
        claimed=True, level="model_checking",
        technique="refinement check against the TLA+ language semantics NslSem: each generated (program, input) case is one TLC behaviour of the abstract machine (with frame-isolation / call-discipline properties) whose prescribed outcome is compared exactly with the real compiler + VM run",
        text="A seeded type-directed generator produces scalar-core programs as data (all operators printed with minimal parentheses, compound assignment, ++/--, "
             "nested loops with break/continue, early return, arrays, structs, globals, calls); TLC executes spec/NslSem.tla on every case - the language rules are "
             "TLA+ actions, typing comes from NslTypes - and prints the prescribed return value and globals; the driver runs the real compiler and VM and compares "
             "exactly on dyadic rationals. What the statement leaves open is 'ood' in the specification and not judged. Bounded, seeded exploration of programs x "
             "inputs with a model-checked reference: model checking of the reference plus conformance of the implementation. In addition the VM's instruction "
             "trace of a subset of the runs (hook events: depth, function, pc, opcode, register value) is validated against spec/IRMachine.tla, the linear IR as an "
             "abstract machine; a diverging step localises a fault and is reported as a note, the verdict stays with the returned value and the globals.",
        note=_TRUST + "Programs are bounded in size; floats are exact dyadic rationals (no rounding behaviour is checked); integers beyond 2^30 are out of the checked domain."),
    "C02": dict(
        claimed=True, level="model_checking",
        technique="both compiled modules (optimize off/on) judged against the TLA+ language semantics NslSem run by TLC, their IR checked by the TLA+ spec IRWellFormed over all paths, plus direct differential execution of the two modules on the VM; small-scope exhaustive family of statement sequences for the two optimisation passes",
        text="All statement sequences up to length 3 (quick) / 4 (thorough) over 12 templates that place a store/load pair in front of every kind of user, seeded "
             "generated programs with every language feature the generator has, and a family of representation-boundary constants are compiled at both levels. "
             "accept/reject must agree; the two modules are executed on the VM for every input and compared (value, globals, failures); TLC runs NslSem on each "
             "case, which decides which module is wrong, and IRWellFormed explores all paths of both modules' functions, so an undefined value on a path no input "
             "takes is reported too. spec/IRMachine.tla validates the instruction traces of optimised modules and executes both modules itself (translation "
             "validation on the IR's own semantics); differences there are notes that localise a fault. That both levels agree with each other but not with the "
             "language is outside this property (C01 / C04 judge it) and is printed as a note.",
        note=_TRUST + "Compared only when the unoptimised module succeeds. Constants beyond 2^30 are outside NslSem's exact domain and are judged by the differential comparison alone."),
    "C03": dict(
        claimed=True, level="model_checking",
        technique="refinement check against the TLA+ semantics NslSem (FrameIsolation / CallDiscipline as TLC action properties on every behaviour) plus trace check of the real VM: activation sequence recorded by the VM hook compared with the prescribed one, caller frame compared across every call return",
        text="Call-heavy programs (deterministic family over parameter types, mutation forms, recursion shapes, overload orders; plus seeded random programs) are run by "
             "NslSem inside TLC, which prescribes the result and the sequence of activations (callee selected by NslTypes!Best, arguments converted to parameter types); "
             "the real VM runs with the call tracer, whose events are checked against that sequence, and the caller's arguments and named locals are compared "
             "before and after every call - the specification's FrameIsolation property evaluated on the implementation's own states.",
        note=_TRUST + "The VM hook (nsl/VM.py, NSL_VERIF=1) supplies enter/step/leave events; array/struct parameters written by a callee are outside the statement."),
    "C04": dict(
        claimed=True, level="model_checking",
        technique="refinement check against the TLA+ language semantics NslSem run by TLC on exhaustive families (all swizzle read/write masks, constructor partitions, matrix selections and nested writes, component-wise and matrix operations) and seeded programs; prescribed values compared exactly with the real compiler + VM",
        text="Every swizzle read mask of length 1-4 on vectors of size 2-4, every non-repeating write mask (also as copy test), every constructor partition (also "
             "checking that the arguments survive), row/element selection and nested writes on 3x3 and 4x4 matrices with constant and dynamic indices, component-wise "
             "+ - and comparisons, scalar multiplication on either side, division by scalar, matrix sum, matrix product and matrix x vector are generated as programs; "
             "NslSem (vector and matrix actions typed by NslTypes) prescribes each result inside TLC and the VM must return it at both optimisation levels.",
        note=_TRUST + "Inputs have pairwise distinct exactly-representable components; the families are built by the driver (not enumerated inside TLC)."),
    "C05": dict(
        claimed=True, level="model_checking",
        technique="trace validation: the pass/stage events recorded by the compiler hooks and the outcome of linking and of every invocation (classified by failing VM instruction) form one trace per compilation, consumed by the TLA+ specification Pipeline in TLC; the first inadmissible event is the verdict",
        text="Every operator on every pair of spellable types (the cases of the TLA+ rule table), a catalogue of ~170 probe programs (one per construct, odd corners "
             "included), seeded programs with every generator feature and the optimiser small-scope family are compiled at both optimisation levels with the hooks on; "
             "Pipeline.tla admits: passes in order, nothing after a failed validation pass, optimisation passes iff optimisation is on, a module iff the pipeline "
             "finished, no failure in lowering or in an IR pass once validation succeeded, linking succeeds, and an invocation ends in a value, a division by zero "
             "or an index out of range. An internal error is a verdict, keyed by (stage, exception class, innermost nsl function, opcode) - number-range exceptions "
             "by their message; a purely structural deviation (pass order / set) without a failure is a conformance note.",
        note=_TRUST + "Inputs are two type-correct vectors per exported function built from the declared parameter and global types; defined failures are recognised by exception class and failing instruction."),
    "C06": dict(
        claimed=True, level="model_checking",
        technique="the emitted bytes are decoded, validated and executed by the TLA+ machine WasmBinary (reader actions + operand-stack validation + interpreter on exact values) inside TLC and compared with the real VM's result; wasmtime cross-checks the TLA+ engine",
        text="Programs inside and just outside the backend's subset are compiled with the wasm option at both optimisation levels. Refusals are fine; every emitted "
             "module becomes one behaviour of spec/WasmBinary.tla (ReadPreamble, ReadSection..., Finish, ValidateBody..., ExecCall...) which returns the value of each "
             "call on exact i32 / f32-representable values; that value must equal the VM's, and the body must contain a counterpart for every arithmetic IR instruction "
             "(nothing silently dropped). wasmtime runs the same calls; a disagreement with the TLA+ engine aborts the check as a machinery failure.",
        note=_TRUST + "The TLA+ engine covers exactly the opcodes the backend can emit; results outside its exact domain are compared through wasmtime in single precision."),
    "C07": dict(
        claimed=True, level="model_checking",
        technique="TLA+ decoder/validator WasmBinary run by TLC over the bytes of every emitted module (section framing with exact sizes, index spaces, exports, operand-stack type checking of every body); wasmtime's validator as independent cross-check of the model",
        text="Every module emitted without an error for a structural family (1-4 functions, 0-6 parameters, alternating local types, constant magnitude classes) and "
             "for seeded programs is read to the end by the reader actions of spec/WasmBinary.tla; the first failing action is the verdict. The model's verdict is "
             "cross-checked against wasmtime on every module, in both directions.",
        note=_TRUST + "Sections and opcodes the backend never emits are outside the model ('unmodelled', judged by wasmtime alone)."),
    "C08": dict(
        claimed=True, level="model_checking",
        technique="TLA+ operator-precedence machine (NslParse) enumerated exhaustively by TLC; every enumerated case replayed into the real parser/compiler/VM (spec->code conformance)",
        text="TLC enumerates every ordered pair and triple of the 13 binary operators with every single parenthesis group, runs the "
             "shift/reduce machine of spec/NslParse.tla on each (checking it against the recursive definition, the precedence law and operand order) "
             "and prints the prescribed tree and the values under six operand assignments; the driver renders each case in five syntactic contexts "
             "and several layouts and compares the real parser's tree and the real VM's value. Exhaustive over the stated space, so model checking is the right level.",
        note=_TRUST + "Operands are int parameters; values are compared only where the expression is inside the property's numeric domain."),
    "C09": dict(
        claimed=True, level="model_checking",
        technique="TLA+ rule table (NslTypes!ResolveBinary) evaluated exhaustively by TLC with its laws as invariants; every triple replayed at the real typing interface and every spellable triple through the real compiler (spec->code conformance)",
        text="The operator-typing rules of the statement are one TLA+ operator; TLC evaluates it on all 13 x 63 x 63 triples of the internal type universe "
             "(laws: result shape/component, symmetry, associativity of matrix shapes) and prints the prescribed outcome; the driver calls "
             "types.ResolveBinaryExpressionType on all 51 597 triples and compiles all 2 548 spellable programs at both optimisation levels, comparing "
             "accept/reject, result type and operand conversions. The domain is finite and is enumerated completely.",
        note=_TRUST + "Not judged (left open by the statement): matrix comparison, one-component vectors, vector x one-row matrix, operand conversions of comparisons."),
    "C10": dict(
        claimed=True, level="model_checking",
        technique="TLA+ overload-resolution operator (NslTypes!Best) enumerated by TLC over all ordered overload sets x argument lists with order-independence and optimality invariants; every cell replayed at Scope.FindFunction and through compiler+VM (spec->code conformance)",
        text="TLC enumerates every ordered set of up to three distinct signatures (up to two parameters) over the tier's type universe and every argument "
             "type list, checks on the specification that the answer is independent of declaration order and that a chosen candidate is viable and strictly "
             "cheapest, and prints the prescribed outcome; the driver replays all cells at RegisterFunction/FindFunction and compiles and runs the sets of up to "
             "two overloads (distinct constant per overload) at both optimisation levels. Exhaustive within the stated universe.",
        note=_TRUST + "Convertible = same shape class and size; one-component vectors are outside the universe."),
    "C11": dict(
        claimed=True, level="model_checking",
        technique="TLC enumerates all statement trees to a depth, decides acceptance with the TLA+ rule NslStatic!FlowOk and runs the TLA+ language semantics NslSem on each; every tree is replayed through the real compiler (accept/reject) and VM (value) - spec->code conformance",
        text="Every statement tree of bounded depth over blocks, if/else, the three loop forms and break/continue/plain leaves is built inside TLC; the acceptance "
             "rule is a TLA+ operator (two formulations checked against each other), and the abstract machine NslSem decides which loop every accepted jump "
             "leaves or re-tests (invariants: accepted programs never get stuck on a jump; frame isolation). The driver compiles all programs at both "
             "optimisation levels and runs the accepted ones on the VM. Exhaustive to the stated depth.",
        note=_TRUST + "Rejection = Compile returns None or raises. Loops run two iterations by construction."),
    "C12": dict(
        claimed=True, level="model_checking",
        technique="TLC enumerates scope structures, decides acceptance with the TLA+ rule NslStatic!NamesOk (two formulations) and runs the TLA+ semantics NslSem; every program is replayed through the real compiler (accept/reject) and VM (value, final global) - spec->code conformance",
        text="Function bodies with declarations and uses of a parameter, a global and two local names inside blocks, if, if/else, while, do, for headers "
             "and un-braced branch/loop bodies are enumerated inside TLC; the visibility rule is a TLA+ operator (recursive and site-by-site formulations "
             "checked against each other) and NslSem computes the value each accepted program must return, which depends on the declaration each use binds to. "
             "Every program is compiled at both optimisation levels and the accepted ones are executed. Exhaustive to the stated size.",
        note=_TRUST + "Rejection = Compile returns None or raises. Parameter/global clashes are not enumerated (not settled by the statement)."),
    "C13": dict(
        claimed=True, level="model_checking",
        technique="TLC enumerates the whole grid of element-selection cases with the verdict of the TLA+ rules NslStatic!ConstIndexOk / MaskOk (MaskOk checked against a second formulation); every case is replayed through the real compiler in several contexts (spec->code conformance)",
        text="Array shapes of 1-3 dimensions x a constant from below zero to beyond the extent at every position of the access chain, vector and matrix constants, "
             "every kind of index-expression type, and every swizzle mask up to length 3 (quick) / 4 (thorough) over xyzw, rgba and foreign letters on vectors "
             "of size 2-4 are enumerated in TLA+ with the verdict the statement prescribes; the driver renders each case as local/global/parameter reads and "
             "writes and compares accept/reject with the real compiler. Exhaustive on the stated grid.",
        note=_TRUST + "Rejection = Compile returns None or raises. Swizzles on scalars and repeated letters in write masks are not judged."),
    "C14": dict(
        claimed=True, level="model_checking",
        technique="TLA+ specification IRWellFormed checked by TLC on the projection of the real compiler's IR: static invariants plus exhaustive exploration of all control-flow paths of every function (nondeterministic branch outcomes) for definition-before-use",
        text="Every module the real compiler produces for the optimiser small-scope family and for seeded programs, at both optimisation levels, is projected "
             "(public properties only) and handed to TLC; IRWellFormed states uniqueness of references, existence of operands, branch targets and call targets as "
             "invariants and explores every path through each function with the set of defined references as state, so a dangling operand on a path that no "
             "input takes is still found. Exhaustive over the paths of each checked function; the set of programs is bounded.",
        note=_TRUST + "Trusted: the projection harness/irproj.py (reads public properties only; a VIEW merges paths that agree on the still-usable references, its completeness is an invariant)."),
    "C15": dict(
        claimed=True, level="model_checking",
        technique="TLA+ specification VMHistory (host operations composed with the NslSem step relation) model-checked by TLC over all histories to a depth plus simulation of longer ones (action properties Isolation, Persistence, FreshLocals); every TLC-generated history replayed on real VirtualMachine objects with state compared after each operation",
        text="SetGlobal / Invoke / GetGlobal on two VMs of one program are actions of spec/VMHistory.tla; an Invoke is Start, NslSem steps, Finish, so the history as a "
             "whole is a behaviour of the reference state machine of the source program. TLC enumerates every history over 9 operations per VM up to depth 3 "
             "(quick) / 4 (thorough) and random histories of 10 / 14 operations, checks isolation, persistence and fresh locals on the specification, and prints "
             "each history with prescribed results and globals; the driver replays them on the real VMs and compares results and all globals of both VMs after "
             "every operation.",
        note=_TRUST + "One library program (scalar, array, struct, vector globals; aggregate locals; recursion); host values are deep-copied by the driver."),
    "C16": dict(
        claimed=True, level="model_checking",
        technique="TLA+ specification Linker (HostAdd / LoadImport in any order / Finish / Reject) model-checked by TLC over all import DAGs, host add orders and name clashes with LoadedOnce, OrderIndependent, ClashRejected; every terminal case replayed with nslc.py-compiled modules, the real Linker and a counting loader (spec->code conformance)",
        text="TLC explores every import DAG on 3 (quick) / 4 (thorough) modules, every sequence of distinct modules the host can add and every order of loading "
             "pending imports, with and without two definitions of one name, and checks the three properties on the specification. The driver renders each DAG as "
             "sources (imports before or after the other items; private overloads; the clash as an exported or as a private function), compiles them separately, "
             "links them in the prescribed order and compares outcome, per-module load counts and VM values with the same functions compiled as one module; "
             "nslr.py is run once per DAG.",
        note=_TRUST + "Not judged: the host adding a module that is also imported by another added module; imported modules without globals only."),
    "C17": dict(
        claimed=True, level="model_checking",
        technique="three-process store/load conformance: listing, IR projection and VM behaviour of the module reloaded by the real loader compared with the compiled module; the reloaded module's results judged against the TLA+ semantics NslSem and its functions checked by the TLA+ spec IRWellFormed (both run by TLC)",
        text="Generated programs (int and uint mixed, structs, arrays, calls, vectors) and optimiser-family members are compiled at both levels in one process, "
             "stored by nslc.py -o in a second and loaded by FilesystemModuleLoader in a third; the reload must list identically, have the same observable "
             "instruction/operand/constant structure and return the same values and globals on every input; TLC runs NslSem on every case (so a reload that "
             "agrees with a wrong original is still caught against the language) and IRWellFormed over the reloaded functions.",
        note=_TRUST + "Equality of listing / projection / repr of results is plain comparison, not model checking; the model-checked part is the reference outcome and IR well-formedness."),
    "C18": dict(
        claimed=True, level="model_checking",
        technique="TLA+ specification CompileHistory: TLC generates every request sequence to a length (enumeration mode); the sequences are replayed in fresh processes under several hash seeds and the recorded events are validated by the same specification in trace mode (one digest per request, whatever came before)",
        text="A library of sources that share names (same struct name with different fields, overloads, an import, vectors, wasm-able functions) x options gives "
             "16 requests; TLC enumerates all sequences up to length 2 (quick, plus 120 sampled of length 3) / 3 (thorough); each sequence runs in a fresh process "
             "with fresh Compiler objects under 2-8 PYTHONHASHSEED values, recording the digest of IR listing and wasm bytes per request; the events are consumed by "
             "CompileHistory!Consume, which rejects the first event whose digest contradicts the one first seen for that request.",
        note=_TRUST + "Digest = sha256 of the InstructionPrinter listing, the import names and the wasm bytes; the object graph beyond what the listing shows is covered by C17."),
    "C19": dict(
        claimed=True, level="model_checking",
        technique="TLA+ LEB128 decoders/encoders on 32-bit bit patterns (round-trip invariants checked by TLC over all boundary windows); every byte string the real writer produces is decoded by the TLA+ standard decoder (trace validation of writer output), modules built with the writer API are read by the TLA+ reader WasmBinary",
        text="TLC enumerates the bit patterns around every 7-bit-group and sign boundary (thorough: also every value below 2^16), checks that the standard decoders invert "
             "the reference encoders, and the driver writes each value with the real writer as an unsigned number and as an i32.const immediate; spec/Leb128Trace.tla "
             "decodes the produced bytes and requires the written value back. Names and sizes: modules built with the writer API (Unicode names, 127/128-byte names, "
             "bodies and sections across the 128- and 16384-byte boundaries, 127-130 functions) must be read back by WasmBinary with the same names.",
        note=_TRUST + "Values are compared as 32-bit patterns because TLC integers are 32-bit signed."),
    "C20": dict(
        claimed=True, level="model_checking",
        technique="TLA+ specification SourceMap (offset->line, line starts, range strings, hulls, token layout) enumerated exhaustively by TLC with round-trip and two-formulation invariants; every case replayed at nsl.ast.SourceMapping/Location and through the real parser, UpdateLocations and the redeclaration diagnostic (spec->code conformance)",
        text="TLC enumerates every text over {character, line break} up to length 10/12 with every offset, every range of every text up to length 7/8 (proving in "
             "the specification that the reported range designates the same characters again), and every layout of a 55-token program over five separators at 3/5 "
             "varied gaps; the prescribed line numbers, line starts, range strings, identifier ranges and composite hulls are compared with SourceMapping, "
             "Location.__str__, the parser's node locations, the compiler's AST passes up to UpdateLocations (compound assignments are rewritten before it) and the text of "
             "the redeclaration diagnostic (captured by the hook). spec/Lexer.tla scans every text over a 12-character alphabet up to length 4/5 and a list of probe "
             "texts; the real scanner's tokens must lie at the offsets and on the lines where their characters are (verdict); a different split into tokens is a "
             "conformance note. spec/Grammar.tla (statement and module level recognizer) is compared with the real parser on all short token sequences and on mutated "
             "derivations - notes only.",
        note=_TRUST + "Only line breaks matter for positions, so all other characters are one class; the diagnostic may name the identifier or identifier plus initialiser."),
}
