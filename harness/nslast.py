"""Programs as data: the AST format shared with spec/NslSem.tla, the printer that turns an
AST into NSL source text, the value codec between the specification's tagged values and
the VM's Python values, and the observer that runs the real compiler + VM on a case.

Nothing in this module decides what a program means.
"""
import copy
from fractions import Fraction

NONE = {"k": "none"}

# ------------------------------------------------------------------ types
INT = {"k": "int"}
UINT = {"k": "uint"}
FLOAT = {"k": "float"}
VOID = {"k": "void"}


def vec(c, n):
    return {"k": "vec", "c": c, "n": n}


def mat(c, r, n):
    return {"k": "mat", "c": c, "r": r, "n": n}


def arr(elem, dims):
    return {"k": "arr", "elem": elem, "dims": list(dims)}


def struct(name, fields):
    return {"k": "struct", "name": name, "fields": [{"n": n, "t": t} for n, t in fields]}


def type_name(t):
    k = t["k"]
    if k in ("int", "uint", "float", "void"):
        return k
    if k == "vec":
        return f"{t['c']}{t['n']}"
    if k == "mat":
        return f"{t['c']}{t['r']}x{t['n']}"
    if k == "arr":
        return type_name(t["elem"]) + "".join(f"[{d}]" for d in t["dims"])
    if k == "struct":
        return t["name"]
    raise ValueError(k)


# ------------------------------------------------------------------ expressions / statements
def lit_i(v, t="int"):
    return {"k": "lit", "t": t, "v": v}


def lit_f(n, e):
    return {"k": "lit", "t": "float", "n": n, "e": e}


def var(n):
    return {"k": "var", "n": n}


def bin_(op, l, r):
    return {"k": "bin", "op": op, "l": l, "r": r}


def asg(lv, e):
    return {"k": "asg", "lv": lv, "e": e}


def casg(op, lv, e):
    return {"k": "casg", "op": op, "lv": lv, "e": e}


def inc(n, op="+", pre=True):
    return {"k": "inc", "op": op, "pre": pre, "n": n}


def idx(a, i):
    return {"k": "idx", "a": a, "i": i}


def mem(a, f):
    return {"k": "mem", "a": a, "f": f}


def swz(a, m):
    return {"k": "swz", "a": a, "m": list(m)}


def call(f, args):
    return {"k": "call", "f": f, "args": list(args)}


def cons(t, args):
    return {"k": "cons", "t": t, "args": list(args)}


def block(ss):
    return {"k": "block", "ss": list(ss)}


def decl(n, t, init=None):
    return {"k": "decl", "n": n, "t": t, "init": init if init is not None else NONE}


def estmt(e):
    return {"k": "expr", "e": e}


def if_(c, t, e=None):
    return {"k": "if", "c": c, "t": t, "e": e if e is not None else NONE}


def while_(c, b):
    return {"k": "while", "c": c, "b": b}


def do_(b, c):
    return {"k": "do", "b": b, "c": c}


def for_(init, c, inc_, b):
    return {"k": "for", "init": init if init is not None else NONE, "c": c if c is not None else NONE,
            "inc": inc_ if inc_ is not None else NONE, "b": b}


BREAK = {"k": "break"}
CONTINUE = {"k": "continue"}
EMPTY = {"k": "empty"}


def ret(e=None):
    return {"k": "ret", "e": e if e is not None else NONE}


def func(name, params, rett, body, exported=False):
    return {"name": name, "exported": exported, "params": [{"n": n, "t": t} for n, t in params], "ret": rett, "body": body}


def prog(globals_, funcs, structs=()):
    return {"globals": [{"n": n, "t": t} for n, t in globals_], "funcs": list(funcs), "structs": list(structs)}


# ------------------------------------------------------------------ printer
LEVEL = {"||": 1, "&&": 2, "==": 3, "!=": 3, "<": 4, "<=": 4, ">": 4, ">=": 4, "+": 5, "-": 5, "*": 6, "/": 6, "%": 6}
SWZ = "xyzw"


def float_text(n, e):
    """non-negative dyadic literal n * 2^-e as decimal text the lexer reads back exactly"""
    assert n >= 0
    fr = Fraction(n, 2 ** e)
    s = repr(float(fr))
    assert Fraction(float(s)) == fr and "e" not in s and "inf" not in s, s
    return s


def pe(e, paren="min", parent=None, side=None):
    k = e["k"]
    if k == "lit":
        if "raw" in e:                      # literal given by its text (values outside the specification's exact domain; not for NslSem)
            return e["raw"]
        if e["t"] == "float":
            return float_text(e["n"], e["e"])
        return str(e["v"])
    if k == "var":
        return e["n"]
    if k == "bin":
        s = f"{pe(e['l'], paren, e['op'], 'l')} {e['op']} {pe(e['r'], paren, e['op'], 'r')}"
        if parent is None:
            return s
        if paren == "full":
            return "(" + s + ")"
        # minimal parentheses under the language's precedence (left associative)
        me, up = LEVEL[e["op"]], LEVEL[parent]
        need = me < up or (me == up and side == "r")
        return "(" + s + ")" if need else s
    if k == "asg":
        return f"{pe(e['lv'], paren)} = {pe(e['e'], paren)}"
    if k == "casg":
        return f"{pe(e['lv'], paren)} {e['op']}= {pe(e['e'], paren)}"
    if k == "inc":
        o = "++" if e["op"] == "+" else "--"
        return o + e["n"] if e["pre"] else e["n"] + o
    if k == "idx":
        return f"{pe(e['a'], paren)}[{pe(e['i'], paren)}]"
    if k == "mem":
        return f"{pe(e['a'], paren)}.{e['f']}"
    if k == "swz":
        return f"{pe(e['a'], paren)}." + "".join(SWZ[i] for i in e["m"])
    if k == "call":
        return f"{e['f']}({', '.join(pe(a, paren) for a in e['args'])})"
    if k == "cons":
        return f"{type_name(e['t'])}({', '.join(pe(a, paren) for a in e['args'])})"
    raise ValueError(k)


def ps(s, ind=1, paren="min"):
    I = "  " * ind
    k = s["k"]
    if k == "block":
        return I + "{\n" + "".join(ps(x, ind + 1, paren) for x in s["ss"]) + I + "}\n"
    if k == "decl":
        return I + f"{type_name(s['t'])} {s['n']}" + ("" if s["init"]["k"] == "none" else f" = {pe(s['init'], paren)}") + ";\n"
    if k == "expr":
        return I + pe(s["e"], paren) + ";\n"
    if k == "if":
        out = I + f"if ({pe(s['c'], paren)})\n" + ps(s["t"], ind + (0 if s['t']['k'] == 'block' else 1), paren)
        if s["e"]["k"] != "none":
            out += I + "else\n" + ps(s["e"], ind + (0 if s['e']['k'] == 'block' else 1), paren)
        return out
    if k == "while":
        return I + f"while ({pe(s['c'], paren)})\n" + ps(s["b"], ind + (0 if s['b']['k'] == 'block' else 1), paren)
    if k == "do":
        return I + "do\n" + ps(s["b"], ind, paren) + I + f"while ({pe(s['c'], paren)})\n"
    if k == "for":
        i = s["init"]
        init = "" if i["k"] == "none" else f"{type_name(i['t'])} {i['n']}" + ("" if i["init"]["k"] == "none" else f" = {pe(i['init'], paren)}")
        c = "" if s["c"]["k"] == "none" else pe(s["c"], paren)
        n = "" if s["inc"]["k"] == "none" else pe(s["inc"], paren)
        return I + f"for ({init}; {c}; {n})\n" + ps(s["b"], ind + (0 if s['b']['k'] == 'block' else 1), paren)
    if k in ("break", "continue"):
        return I + k + ";\n"
    if k == "empty":
        return I + "{\n" + I + "}\n"
    if k == "ret":
        return I + ("return;\n" if s["e"]["k"] == "none" else f"return {pe(s['e'], paren)};\n")
    raise ValueError(k)


def pp(p, paren="min"):
    out = ""
    for st in p.get("structs", []):
        out += f"struct {st['name']}\n{{\n" + "".join(f"  {type_name(f['t'])} {f['n']};\n" for f in st["fields"]) + "}\n"
    for g in p["globals"]:
        out += f"{type_name(g['t'])} {g['n']};\n"
    for f in p["funcs"]:
        out += ("export " if f["exported"] else "") + f"function {f['name']}(" + \
            ", ".join(type_name(q['t']) if q['n'].startswith("unnamed_") else f"{type_name(q['t'])} {q['n']}" for q in f["params"]) + f") -> {type_name(f['ret'])}\n" + ps(f["body"], 0, paren)
    return out


# ------------------------------------------------------------------ values
def zero_py(t):
    k = t["k"]
    if k in ("int", "uint"):
        return 0
    if k == "float":
        return 0.0
    if k == "vec":
        return [zero_py({"k": t["c"]}) for _ in range(t["n"])]
    if k == "mat":
        return [[zero_py({"k": t["c"]}) for _ in range(t["n"])] for _ in range(t["r"])]
    if k == "arr":
        def mk(dims):
            return [zero_py(t["elem"]) if len(dims) == 1 else mk(dims[1:]) for _ in range(dims[0])]
        return mk(t["dims"])
    if k == "struct":
        return {f["n"]: zero_py(f["t"]) for f in t["fields"]}
    raise ValueError(k)


def enc(v, t):
    """Python value of declared type t -> the specification's tagged value (exact)."""
    k = t["k"]
    if k in ("int", "uint"):
        assert isinstance(v, int) and abs(v) < 2 ** 30
        return {"t": k, "v": int(v)}
    if k == "float":
        fr = Fraction(v)
        e = fr.denominator.bit_length() - 1
        assert fr.denominator == 2 ** e and abs(fr.numerator) < 2 ** 30 and e <= 20, v
        return {"t": "float", "n": fr.numerator, "e": e}
    if k == "vec":
        return {"t": "vec", "c": [enc(x, {"k": t["c"]}) for x in v]}
    if k == "mat":
        return {"t": "mat", "c": [[enc(x, {"k": t["c"]}) for x in row] for row in v]}
    if k == "arr":
        sub = t["elem"] if len(t["dims"]) == 1 else arr(t["elem"], t["dims"][1:])
        return {"t": "arr", "c": [enc(x, sub) for x in v]}
    if k == "struct":
        return {"t": "struct", "f": {f["n"]: enc(v[f["n"]], f["t"]) for f in t["fields"]}}
    raise ValueError(k)


def dec(s):
    """The specification's tagged value -> the Python value the host passes to the VM."""
    t = s["t"]
    if t in ("int", "uint"):
        return s["v"]
    if t == "float":
        return s["n"] / (2 ** s["e"])
    if t == "vec":
        return [dec(x) for x in s["c"]]
    if t == "mat":
        return [[dec(x) for x in row] for row in s["c"]]
    if t == "arr":
        return [dec(x) for x in s["c"]]
    if t == "struct":
        return {k: dec(x) for k, x in s["f"].items()}
    if t == "void":
        return None
    raise ValueError(t)


def _num(py):
    if isinstance(py, bool):
        return Fraction(int(py))
    if isinstance(py, int):
        return Fraction(py)
    if isinstance(py, float) and py == py and abs(py) != float("inf"):
        return Fraction(py)
    return None


def same(s, py):
    """Exact numeric equality between a specification value and a VM value (5 == 5.0 holds:
    the property speaks about the value, not its Python class).  Returns True/False."""
    t = s["t"]
    try:
        if t in ("int", "uint"):
            f = _num(py)
            return f is not None and f == s["v"]
        if t == "float":
            f = _num(py)
            return f is not None and f == Fraction(s["n"], 2 ** s["e"])
        if t in ("vec", "arr"):
            return isinstance(py, (list, tuple)) and len(py) == len(s["c"]) and all(same(a, b) for a, b in zip(s["c"], py))
        if t == "mat":
            return isinstance(py, (list, tuple)) and len(py) == len(s["c"]) and all(
                isinstance(r, (list, tuple)) and len(r) == len(sr) and all(same(a, b) for a, b in zip(sr, r)) for sr, r in zip(s["c"], py))
        if t == "struct":
            return isinstance(py, dict) and set(py) == set(s["f"]) and all(same(s["f"][k], py[k]) for k in py)
        if t == "void":
            return py is None
    except (OverflowError, ValueError, TypeError):
        return False
    return False


def show_py(v):
    r = repr(v)
    return r if len(r) < 200 else r[:200] + "..."


# ------------------------------------------------------------------ running the real code
class Fuel(Exception):
    pass


class StepCounter:
    """Tracer for the VM hook: counts executed instructions and stops a run that exceeds the budget
    (the budget is a step count, not wall-clock time, so machine load cannot change a verdict).
    Optionally records activation entries (function name, argument snapshot)."""

    def __init__(self, budget, record_calls=False):
        self.budget = budget
        self.steps = 0
        self.record = record_calls
        self.calls = []
        self.depth = 0
        self.maxdepth = 0

    def enter(self, ctx, function, instructions, localScope, args):
        self.depth += 1
        self.maxdepth = max(self.maxdepth, self.depth)
        if self.depth > 400:
            raise Fuel("recursion depth")
        if self.record:
            self.calls.append((function.Name, copy.deepcopy(list(args))))

    def step(self, function, pc, localScope, args):
        self.steps += 1
        if self.steps > self.budget:
            raise Fuel("step budget")

    def leave(self, function, localScope):
        self.depth -= 1


def innermost_nsl_frame(tb):
    import traceback
    fr = None
    for f in traceback.extract_tb(tb):
        if "/nsl/" in f.filename.replace("\\", "/"):
            fr = f
    if fr is None:
        return "?"
    import os
    return f"{os.path.basename(fr.filename)}:{fr.name}"


def run_vm(program_or_vm, entry, args, globals_, budget=200000, record_calls=False, vm=None):
    """Invoke entry on a fresh VM of the linked program.  Returns a dict:
    ok: True -> ret, globals (Python values)   |   ok: False -> exc, msg, where; fuel: True if the budget ran out."""
    import sys
    from nsl import VM
    from common import quiet
    tr = StepCounter(budget, record_calls)
    if vm is None:
        vm = VM.VirtualMachine(program_or_vm)
    for k, v in globals_.items():
        vm.SetGlobal(k, copy.deepcopy(v))
    VM._verif_tracer = tr
    try:
        with quiet():
            r = vm.Invoke(entry, **copy.deepcopy(args))
        out = {"ok": True, "ret": r, "globals": {k: vm.GetGlobal(k) for k in globals_}, "steps": tr.steps}
    except Fuel as e:
        out = {"ok": False, "fuel": True, "exc": "Fuel", "msg": str(e), "where": "", "steps": tr.steps}
    except RecursionError:
        out = {"ok": False, "fuel": True, "exc": "RecursionError", "msg": "", "where": "", "steps": tr.steps}
    except BaseException as e:  # noqa
        out = {"ok": False, "fuel": False, "exc": type(e).__name__, "msg": str(e)[:120],
               "where": innermost_nsl_frame(sys.exc_info()[2]), "steps": tr.steps}
    finally:
        VM._verif_tracer = None
    if record_calls:
        out["calls"] = tr.calls
    out["hook_steps"] = tr.steps
    return out


def link(result_or_module):
    from nsl import LinearIR
    m = getattr(result_or_module, "IRModule", result_or_module)
    l = LinearIR.Linker()
    l.AddModule(m)
    return l.Link()
