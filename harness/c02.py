"""C02 - optimisation never changes observable behaviour.

For every program of the optimiser small-scope family (all statement sequences up to a
length over templates that put a forwarded load in front of every kind of user) and of the
seeded generators (scalar core, calls, vectors), and for every input:
  * accept/reject must agree between optimize=False and optimize=True;
  * both compiled modules are run on the real VM; the optimised run must return the same
    value and leave the same globals, and must not fail where the unoptimised one succeeds;
  * both runs are also compared with the outcome spec/NslSem.tla prescribes (TLC runs the
    language semantics on every case), which tells WHICH of the two modules is wrong when
    they differ and catches a change that breaks both levels in the same way;
  * the IR of both modules goes through spec/IRWellFormed.tla (all paths), so an undefined
    value on a path that the inputs do not take is found statically.
"""
import json
import multiprocessing as mp

import common
import nslast as A
import nslgen
import optfamily
import irmachine
import semrun
import irproj

FEATS = [dict(vectors=False), dict(vectors=True, structs=False, maxstmts=4, depth=1), dict(vectors=False, calls=False, maxstmts=8)]


IRM_GEN = {"quick": 60, "thorough": 800}
_TIER = ["quick"]


def traced(kind, ident):
    if kind == "gen":
        return int(ident) < IRM_GEN[_TIER[0]]
    if kind == "fam":
        parts = ident.split("-")
        return len(parts) <= 2 or (_TIER[0] == "thorough" and sum(map(ord, ident)) % 5 == 0)
    return False


def work(job):
    kind, items = job[:2]
    _TIER[0] = job[2] if len(job) > 2 else "quick"
    from nsl import LinearIR
    out = []
    for ident, prog, inputs in items:
        raw = kind == "big"          # inputs are Python values outside the specification's exact domain
        src = prog if raw else A.pp(prog)
        rec = {"id": f"{kind}:{ident}", "prog": prog, "src": src, "levels": {}, "inputs": inputs, "fns": []}
        for opt in (False, True):
            try:
                with common.time_limit(120):
                    st, r, info = common.compile_traced(src, {"optimize": opt})
            except common.CaseTimeout:
                st, r, info = "timeout", "timeout", {"failed_pass": None}
            lv = {"st": st, "why": None if st == "ok" else str(r)[:120], "runs": []}
            if st == "ok":
                try:
                    program = A.link(r)
                    m = irproj.project_module(r.IRModule, LinearIR)
                    table = [{"name": f["name"], "argc": f["argc"]} for f in m["funcs"]]
                    for f in m["funcs"]:
                        rec["fns"].append({"id": f"{rec['id']}/{'O1' if opt else 'O0'}/{f['name']}", "fn": f, "table": table})
                    for args, gl in inputs:
                        obs = A.run_vm(program, "f", args if raw else {k: A.dec(v) for k, v in args.items()},
                                       gl if raw else {k: A.dec(v) for k, v in gl.items()}, budget=300000)
                        obs["ret_repr"] = A.show_py(obs.get("ret"))
                        lv["runs"].append(obs)
                    if not opt and not raw and traced(kind, ident):
                        rec["irm0"] = irmachine.machine_module(program, LinearIR)
                    if opt and not raw and traced(kind, ident):
                        # the optimised module's runs once more, instruction by instruction, for spec/IRMachine.tla
                        params = [p_["n"] for p_ in [f for f in prog["funcs"] if f["name"] == "f"][0]["params"]]
                        rec["irm"] = {"mod": irmachine.machine_module(program, LinearIR), "runs": []}
                        for j, (args, gl) in enumerate(inputs[:2]):
                            o2, ev, trunc = irmachine.trace_run(program, LinearIR, "f", {k: A.dec(v) for k, v in args.items()}, {k: A.dec(v) for k, v in gl.items()})
                            rec["irm"]["runs"].append({"j": j, "args": [args[n] for n in params], "globals": gl, "obs": o2, "events": ev, "truncated": trunc})
                except BaseException as e:  # noqa
                    lv["st"] = "link-error"
                    lv["why"] = f"{type(e).__name__}: {e}"[:120]
            rec["levels"][opt] = lv
        out.append(rec)
    return out


def big_family():
    """Constants at representation boundaries (the first integers a double / a float cannot hold, the 32-bit
    limits) combined with a float or int parameter by every operator: constant folding must not change what the
    unoptimised module computes.  These programs are outside NslSem's exact numeric domain, so they are judged by the
    optimised-versus-unoptimised comparison only."""
    out = []
    lits = [2 ** 53 + 1, 2 ** 53 + 3, 2 ** 24 + 1, 2 ** 31 - 1, 2 ** 31, 2 ** 63 + 1, 10 ** 17 + 1]
    ops = ["+", "-", "*", "/", "<", "<=", ">", ">=", "==", "!="]
    for lit in lits:
        for op in ops:
            for pt, rt in (("float", "float"), ("int", "int")):
                for order in (0, 1):
                    e = f"a {op} {lit}" if order == 0 else f"{lit} {op} a"
                    src = f"int g;\nexport function f({pt} a) -> {rt}\n{{\n  if ({e})\n  {{\n    g = 1;\n  }}\n  return {e};\n}}\n"
                    vals = [float(lit), float(lit - 1), float(lit + 2), 1.0] if pt == "float" else [lit, lit - 1, lit + 1, 3]
                    out.append((f"{lit}{op}{pt}{order}", src, [({"a": v}, {"g": 0}) for v in vals]))
    return out


def same_py(a, b):
    """exact equality of two VM values (5 == 5.0 holds; lists and dicts elementwise; NaN equals NaN)"""
    if isinstance(a, (list, tuple)) and isinstance(b, (list, tuple)):
        return len(a) == len(b) and all(same_py(x, y) for x, y in zip(a, b))
    if isinstance(a, dict) and isinstance(b, dict):
        return set(a) == set(b) and all(same_py(a[k], b[k]) for k in a)
    if isinstance(a, float) and isinstance(b, float) and a != a and b != b:
        return True
    if isinstance(a, (int, float)) and isinstance(b, (int, float)):
        return a == b
    return a is None and b is None


def run(ctx, args):
    quick = ctx.tier == "quick"
    famprogs = optfamily.quick_family(ctx.seed) if quick else optfamily.programs(3)
    if not quick:
        # all sequences of length 4 would be 38 416 more programs x 2 levels x 3 inputs: a seeded sample of 1 500 of them
        import random
        four = [x for x in optfamily.programs(4) if len(x[0].split("-")) == 4]
        famprogs += random.Random(ctx.seed).sample(four, 1500)
    fam = [(name, prog, [({"a": A.enc(a, A.INT)}, {"g": A.enc(2, A.INT)}) for a in optfamily.INPUTS]) for name, prog in famprogs]
    n = 300 if quick else 1500
    gen = []
    for i in range(n):
        g = nslgen.Gen(ctx.seed * 1000003 + i, FEATS[i % 3])
        prog = g.program()
        gen.append((str(i), prog, [g.inputs(prog) for _ in range(3)]))
    big = big_family()
    jobs = [("fam", fam[i:i + 40], ctx.tier) for i in range(0, len(fam), 40)] + [("gen", gen[i:i + 20], ctx.tier) for i in range(0, len(gen), 20)] \
        + [("big", big[i:i + 40], ctx.tier) for i in range(0, len(big), 40)]
    with mp.Pool(16) as pool:
        recs = [r for out in pool.map(work, jobs) for r in out]
    # ---- the language semantics on every case
    progs, cases = [], []
    for r in recs:
        if r["id"].startswith("big:"):
            continue
        progs.append(r["prog"])
        for j, (a, gl) in enumerate(r["inputs"]):
            if quick and r["id"].startswith("fam:") and j != len(r["inputs"]) - 1:
                continue          # quick tier: the family is compared with the language on one input (with each other on all of them)
            cases.append({"id": f"{r['id']}#{j}", "p": len(progs), "entry": "f", "args": a, "globals": gl})
    sem = {}
    for lo in range(0, len(cases), 3000):
        sem.update(semrun.run_sem(ctx, progs, cases[lo:lo + 3000]))
    # ---- IR well-formedness of both modules
    fns = [f for r in recs for f in r["fns"]]
    # identical functions (the helper of the family, unchanged functions at both levels) are checked once
    uniq, same_as = {}, {}
    for f in fns:
        key = json.dumps([f["fn"], f["table"]], sort_keys=True)
        if key in uniq:
            same_as.setdefault(uniq[key]["id"], []).append(f["id"])
        else:
            uniq[key] = f
    ufns = list(uniq.values())
    wf_bad = {}
    for lo in range(0, len(ufns), 4000):
        path = ctx.tmp("irwf-batch.json")
        path.write_text(json.dumps(ufns[lo:lo + 4000]))
        res = ctx.tlc("IRWellFormed", "INIT Init\nNEXT Next\nVIEW View\nINVARIANT Report\nCHECK_DEADLOCK FALSE\n", env={"BATCH": str(path)}, timeout=6000)
        for rec in res.records:
            if rec["kind"] == "undef" or not (rec["unique"] and rec["operands"] and rec["targets"] and rec["calls"]):
                wf_bad.setdefault(rec["id"], rec)
                for other in same_as.get(rec["id"], []):
                    wf_bad.setdefault(other, rec)
    counts = {}
    nontrivial = 0
    samples = []
    for r in recs:
        l0, l1 = r["levels"][False], r["levels"][True]
        base = {"source": r["src"], "id": r["id"]}
        fam_ = r["id"].startswith("fam:")
        pre = "family-" if fam_ else ("bigconst-" if r["id"].startswith("big:") else "")
        if (l0["st"] == "ok") != (l1["st"] == "ok"):
            which = "optimised" if l0["st"] == "ok" else "unoptimised"
            why = (l1 if l0["st"] == "ok" else l0)["why"]
            ctx.violation(f"{pre}accept-reject-differs:{':'.join(str(why).split(':')[:2])}", f"only the {which} compilation fails ({why})", base)
            continue
        if l0["st"] != "ok":
            counts["both-rejected"] = counts.get("both-rejected", 0) + 1
            continue
        for lvl in ("O0", "O1"):
            for f in r["fns"]:
                if f["id"].startswith(f"{r['id']}/{lvl}/") and f["id"] in wf_bad and lvl == "O1" and not any(
                        g["id"] == f["id"].replace("/O1/", "/O0/") and g["id"] in wf_bad for g in r["fns"]):
                    ctx.violation(f"{pre}optimised-ir-ill-formed", f"{f['id']}: the optimised function reads an undefined value on some path / has a dangling operand, the unoptimised one does not", dict(base, detail=wf_bad[f["id"]]))
        changed = json.dumps([f["fn"]["blocks"] for f in r["fns"] if "/O0/" in f["id"]], sort_keys=True) != json.dumps([f["fn"]["blocks"] for f in r["fns"] if "/O1/" in f["id"]], sort_keys=True)
        if changed:
            nontrivial += 1
        for j, ((a, gl), o0, o1) in enumerate(zip(r["inputs"], l0["runs"], l1["runs"])):
            isbig = r["id"].startswith("big:")
            s = sem.get(f"{r['id']}#{j}") if not isbig else None
            if s is None:
                s = {"status": "ood", "ret": {"t": "void"}, "steps": 0}
            case = dict(base, args=a if isbig else {k: A.dec(v) for k, v in a.items()}, globals_before=gl if isbig else {k: A.dec(v) for k, v in gl.items()},
                        unoptimised={k: o0.get(k) for k in ("ok", "ret_repr", "exc", "msg", "globals")}, optimised={k: o1.get(k) for k in ("ok", "ret_repr", "exc", "msg", "globals")},
                        reference={"status": s["status"], "ret": s["ret"]})
            if o0["ok"]:
                if not o1["ok"]:
                    what = "exceeds its step budget" if o1.get("fuel") else f"fails with {o1['exc']}: {o1['msg']} in {o1['where']}"
                    ctx.violation(f"{pre}optimised-fails:{o1['exc']}:{o1.get('where', '')}", f"the unoptimised module returns {o0['ret_repr']}, the optimised module {what}", case)
                    continue
                if not same_py(o0["ret"], o1["ret"]):
                    blame = ""
                    if s["status"] == "done":
                        blame = " (the language prescribes " + semrun.show_spec(s["ret"]) + ")"
                    ctx.violation(f"{pre}optimised-value-differs", f"unoptimised returns {o0['ret_repr']}, optimised returns {o1['ret_repr']}{blame}", case)
                    continue
                if not same_py(o0["globals"], o1["globals"]):
                    ctx.violation(f"{pre}optimised-globals-differ", f"globals after the call: unoptimised {o0['globals']}, optimised {o1['globals']}", case)
                    continue
                counts["levels-agree"] = counts.get("levels-agree", 0) + 1
            else:
                counts["unoptimised-fails-not-judged"] = counts.get("unoptimised-fails-not-judged", 0) + 1
                continue
            # both levels against the language semantics
            kind, detail = semrun.judge(s, o1)
            if kind in ("agree", "unjudged", "defined-fail"):
                counts["sem-" + kind] = counts.get("sem-" + kind, 0) + 1
                if kind == "agree" and changed and len(samples) < 3 and s["steps"] > 60:
                    samples.append({"source": r["src"], "args": case["args"], "both_levels_return": o1["ret_repr"], "prescribed": semrun.show_spec(s["ret"])})
            else:
                # both levels agree with each other, so the statement of this property holds for the case; that they disagree with the
                # language is C01's / C04's business (their checks judge it): a note here
                counts[f"both-levels-{kind}"] = counts.get(f"both-levels-{kind}", 0) + 1
                if counts[f"both-levels-{kind}"] <= 2:
                    msg = f"NOTE (outside this property): {r['id']}: optimised and unoptimised agree with each other but not with the language: {detail}"
                    print(msg[:400])
                    ctx.notes.append(msg[:400])
    # ---- the optimised modules' executions against the IR machine
    import c01
    for r in recs:
        r["i"] = r["id"]
    irm = c01.irm_validate(ctx, recs, "optimize=True")
    # ---- translation validation on the IR's own semantics: IRMachine executes both modules (no VM involved)
    fmods, fcases, fmeta = [], [], {}
    for r in recs:
        if "irm" not in r or "irm0" not in r:
            continue
        fmods += [r["irm0"], r["irm"]["mod"]]
        for run_ in r["irm"]["runs"]:
            for lvl, m in (("O0", len(fmods) - 1), ("O1", len(fmods))):
                cid = f"free:{r['id']}#{run_['j']}/{lvl}"
                fcases.append({"id": cid, "m": m, "entry": "f", "args": run_["args"], "globals": run_["globals"], "trace": [], "free": True})
            fmeta[f"free:{r['id']}#{run_['j']}"] = (r, run_)
    fver = {}
    for lo in range(0, len(fcases), 800):
        part = fcases[lo:lo + 800]
        used = sorted({c["m"] for c in part})
        remap = {m: k + 1 for k, m in enumerate(used)}
        v, _ = irmachine.run_machine(ctx, [fmods[m - 1] for m in used], [dict(c, m=remap[c["m"]]) for c in part], name=f"irm-free-{lo}.json")
        fver.update(v)
    free_counts = {"cases": len(fcases)}

    def note(key, what, case):
        # the statement speaks about the two modules run on the VM (judged above); a difference under the specification's own IR
        # semantics localises a fault or shows a divergence between IRMachine.tla and nsl/VM.py: a note, not a verdict
        free_counts["diverging:" + key] = free_counts.get("diverging:" + key, 0) + 1
        if sum(v_ for k_, v_ in free_counts.items() if k_.startswith("diverging:")) <= 3:
            msg = f"CONFORMANCE-NOTE (localisation, not a verdict): {what} [{case['id']}, args {case['args']}]"
            print(msg[:600])
            ctx.notes.append(msg[:600])
            ctx.coverage_extra.setdefault("irmachine_divergences", []).append(case)
    for key, (r, run_) in fmeta.items():
        v0, v1 = fver[key + "/O0"], fver[key + "/O1"]
        case = {"source": r["src"], "id": r["id"], "args": [A.dec(a) for a in run_["args"]], "globals_before": {k: A.dec(x) for k, x in run_["globals"].items()},
                "unoptimised_ir": {k: v0.get(k) for k in ("status", "why", "ret", "globals")}, "optimised_ir": {k: v1.get(k) for k in ("status", "why", "ret", "globals", "fn", "pc")}}
        if v0["status"] != "done":
            free_counts["unjudged:" + v0["status"]] = free_counts.get("unjudged:" + v0["status"], 0) + 1
            continue
        if v1["status"] in ("ood", "fuel"):
            free_counts["unjudged:O1-" + v1["status"]] = free_counts.get("unjudged:O1-" + v1["status"], 0) + 1
            continue
        if v1["status"] != "done":
            note(f"ir-semantics-optimised-fails:{v1['status']}", f"executed by the IR machine, the unoptimised module returns, the optimised one stops with {v1['status']} ({v1.get('why')}) at {v1.get('fn')} pc {v1.get('pc')}", case)
            continue
        if not irmachine.spec_eq(v0["ret"], v1["ret"]) or not irmachine.spec_eq(v0.get("globals") or {}, v1.get("globals") or {}):
            note("ir-semantics-differ", f"executed by the IR machine, the unoptimised module gives {json.dumps(v0['ret'])[:80]} / {json.dumps(v0.get('globals'))[:80]}, the optimised one {json.dumps(v1['ret'])[:80]} / {json.dumps(v1.get('globals'))[:80]}", case)
            continue
        free_counts["equal"] = free_counts.get("equal", 0) + 1
    irm["ir_level_translation_validation"] = free_counts
    if counts.get("levels-agree", 0) == 0 and not ctx.violations:
        raise common.Machinery("vacuous run: no case in which both levels ran")
    if nontrivial == 0 and not ctx.violations:
        raise common.Machinery("vacuous run: the optimiser changed no program")
    return common.finish(
        ctx, level="model_checking", evaluations=len(cases) * 2, distinct_nontrivial=nontrivial,
        rule=f"{len(fam)} optimiser-family programs (all sequences of <= {'2' if quick else '3'} of {len(optfamily.TEMPLATES)} statement templates{' and a seeded third of the sequences of length 3' if quick else ' and a seeded sample of 1500 sequences of length 4'}, copy chains, and all sequences of <= 3 over a second alphabet of {len(optfamily.TEMPLATES2)} templates: aggregate copies followed by literal element stores, sibling blocks re-declaring a name) x 3 inputs and {n} seeded programs x 3 inputs; "
             "each compiled with optimize False and True: accept/reject compared, both modules run on the VM (value, globals, failures compared), both compared "
             "with NslSem's prescription (TLC), both IR modules checked by IRWellFormed over all paths; "
             f"{irm['cases']} runs of optimised modules ({irm['events']} instruction events) validated against spec/IRMachine.tla, and the same programs executed by IRMachine itself at both levels "
             f"({free_counts['cases']} executions, results compared inside the specification's value domain). distinct_nontrivial = programs whose IR the optimiser changed.",
        samples=samples or [{"note": "no long agreeing case in this batch"}], traces_validated=counts.get("levels-agree", 0),
        assumptions=["compared only when the unoptimised module succeeds (the statement's wording)", "5 and 5.0 are the same value"],
        extra={"outcome_counts": counts, "functions_checked_by_IRWellFormed": len(fns), "distinct_functions": len(ufns), "irmachine_trace_validation": irm})
