"""Hand-written probe programs for C05: one small program per construct of the spellable language,
including the odd corners (constructs a type checker might let through although later stages cannot
handle them).  Each is (name, source); every `export function` is invoked with type-correct inputs."""

S = "struct S0\n{\n  int a;\n  float b;\n}\n"
S2 = S + "struct S1\n{\n  S0 inner;\n  float3 v;\n  int[2] arr;\n}\n"


def fn(sig, body, pre=""):
    return pre + "export function f(" + sig + "\n{\n" + "".join("  " + l + "\n" for l in body) + "}\n"


TEMPLATES = []


def add(name, src):
    TEMPLATES.append((name, src))


# ---- increments and compound assignment on every kind of variable
for t in ("int", "uint", "float"):
    add(f"inc-{t}", fn(f"{t} a) -> {t}", ["++a;", "a++;", "--a;", f"{t} b = a++;", "return a + b;"]))
    for op in ("+=", "-=", "*=", "/="):
        add(f"casg-{t}{op}", fn(f"{t} a, {t} b) -> {t}", [f"a {op} b;", "return a;"]))
for t in ("float2", "float3", "float4", "int3", "uint2"):
    add(f"inc-{t}", fn(f"{t} v) -> {t}", ["++v;", "return v;"]))
    for op in ("+=", "-="):
        add(f"casg-{t}{op}", fn(f"{t} v, {t} w) -> {t}", [f"v {op} w;", "return v;"]))
    add(f"casg-{t}*=s", fn(f"{t} v) -> {t}", ["v *= 2;", "return v;"]))
    add(f"casg-{t}/=s", fn(f"{t} v) -> {t}", ["v /= 2;", "return v;"]))
    add(f"casg-{t}-elem", fn(f"{t} v, int i) -> {t}", ["v[i] += 1;", "v[0] *= 2;", "return v;"]))
    add(f"casg-{t}-swz", fn(f"{t} v) -> {t}", ["v.x += 1;", "v.yx -= v.xy;", "return v;"]))
for t in ("float3x3", "float4x4"):
    add(f"casg-{t}", fn(f"{t} m, {t} k) -> {t}", ["m += k;", "m -= k;", "m *= 2.0;", "m /= 2.0;", "return m;"]))
    add(f"casg-{t}-elem", fn(f"{t} m, int i) -> {t}", ["m[i][1] += 1.0;", "m[0] += m[1];", "return m;"]))
    add(f"mat-cmp-{t}", fn(f"{t} m, {t} k) -> int", ["return m == k;"]))
    add(f"mat-mulmat-{t}", fn(f"{t} m, {t} k) -> {t}", ["return m * k * m;"]))
# ---- swizzles in odd places
add("swz-scalar", fn("float a) -> float", ["return a.x;"]))
add("swz-scalar2", fn("float a) -> float2", ["return a.xx;"]))
add("swz-nested", fn("float4 v) -> float", ["return v.zyx.xy.y;"]))
add("swz-nested-write", fn("float4 v) -> float4", ["v.zyx.x = 1.0;", "return v;"]))
add("swz-call", fn("float4 v) -> float2", ["return g(v).xy;"], "function g(float4 q) -> float4\n{\n  return q * 2.0;\n}\n"))
add("swz-member", fn("S1 s) -> float2", ["s.v.zx = float2(1.0, 2.0);", "return s.v.xz;"], S2))
add("swz-array", fn("float a) -> float2", ["float3[2] t;", "t[1].xy = float2(a, 2.0);", "return t[1].yx + t[0].xx;"]))
add("swz-rgba", fn("float4 v) -> float3", ["v.ra = v.gb;", "return v.bgr;"]))
add("swz-int", fn("int4 v) -> int2", ["v.wx = int2(7, 8);", "return v.xw;"]))
# ---- constructors
for t, args in (("float", "1"), ("float", "a"), ("int", "2.5"), ("int", "b"), ("uint", "a"), ("float2", "1"), ("float2", "a, a"), ("float3", "1, 2"),
                ("float4", "v2, v2"), ("float4", "v2, 1"), ("float4", "1, v2, 2"), ("int3", "1.5, 2, 3"), ("int2", "v2"), ("float2", "i2"),
                ("float3x3", "v3, v3, v3"), ("float3x3", "1, 2, 3"), ("float4", "a, b, a, b, a"), ("uint2", "a, b")):
    rt = t
    add(f"cons-{t}({args})", fn(f"int a, float b, float2 v2, float3 v3, int2 i2) -> {rt}", [f"return {t}({args});"]))
# ---- indexing
add("idx-2d", fn("int i, int j) -> int", ["int[2][3] t;", "t[i][j] = 5;", "t[1][2] += t[i][j];", "return t[1][2] + t[0][0];"]))
add("idx-3d", fn("int i) -> float", ["float[2][2][2] t;", "t[1][i][0] = 2.5;", "return t[1][i][0] + t[0][1][1];"]))
add("idx-uint", fn("uint i, float4 v) -> float", ["int[3] t;", "t[i] = 2;", "return v[i] + t[i];"]))
add("idx-float-literal", fn("int a) -> int", ["int[3] t;", "return t[1.0];"]))
add("idx-float-var", fn("float a) -> int", ["int[3] t;", "return t[a];"]))
add("idx-expr", fn("int i) -> int", ["int[4] t;", "t[i % 4] = 3;", "t[(i + 1) % 4] = t[i % 4] + 1;", "return t[0] + t[1] + t[2] + t[3];"]))
add("idx-matrix-row", fn("float4x4 m, int i) -> float4", ["float4 r = m[i];", "r[i] = 1.0;", "m[i] = r;", "return m[i] + m[0];"]))
add("idx-array-of-struct", fn("int i) -> int", ["S0[2] t;", "t[i].a = 4;", "t[0].b = 1.5;", "return t[i].a + t[1].a;"], S))
add("idx-array-of-struct-alias", fn("int i) -> int", ["S0[3] t;", "t[0].a = 4;", "return t[1].a + t[2].a;"], S))
add("idx-array-of-vec", fn("int i) -> float", ["float2[3] t;", "t[i][1] = 2.0;", "t[0].x = 1.0;", "return t[i][1] + t[0][0] + t[2][1];"]))
add("idx-global-2d", fn("int i, int j) -> int", ["g[i][j] = g[j][i] + 1;", "return g[i][j];"], "int[2][2] g;\n"))
add("idx-array-param", fn("int[3] t, int i) -> int", ["t[i] += 2;", "return t[0] + t[1] + t[2];"]))
add("idx-array-param-2d", fn("float[2][2] t, int i) -> float", ["return t[i][1] + t[1][i];"]))
add("idx-array-copy", fn("int i) -> int", ["int[3] t;", "int[3] u = t;", "u[i] = 5;", "return t[i] + u[i];"]))
# ---- structs
add("struct-nested", fn("int a) -> float", ["S1 s;", "s.inner.a = a;", "s.inner.b = 2.5;", "s.arr[1] = 3;", "s.v[2] = 1.0;", "return s.inner.a + s.inner.b + s.arr[1] + s.v.z;"], S2))
add("struct-assign", fn("S0 s) -> int", ["S0 t;", "t = s;", "t.a = t.a + 1;", "return s.a * 10 + t.a;"], S))
add("struct-param-ret", fn("S0 s, int a) -> S0", ["s.a = a;", "s.b += 0.5;", "return s;"], S))
add("struct-global", fn("int a) -> float", ["gs.a = a;", "gs.b = gs.a * 1.5;", "return gs.b;"], S + "S0 gs;\n"))
add("struct-call", fn("S0 s) -> int", ["return h(s) + s.a;"], S + "function h(S0 q) -> int\n{\n  q.a = q.a + 1;\n  return q.a;\n}\n"))
add("struct-cmp", fn("S0 s, S0 t) -> int", ["return s == t;"], S))
# ---- control flow
add("for-empty-parts", fn("int a) -> int", ["int i = 0;", "for (; i < a; )", "{", "  i++;", "  if (i > 5)", "  {", "    break;", "  }", "}", "return i;"]))
add("for-no-cond", fn("int a) -> int", ["for (int i = 0; ; ++i)", "{", "  if (i >= a)", "  {", "    return i;", "  }", "}", "return -1;"]))
add("while-empty-body", fn("int a) -> int", ["while (a < 0) ;", "return a;"]))
add("while-nested", fn("int a) -> int", ["int n = 0;", "int i = 0;", "while (i < a)", "{", "  int j = 0;", "  do", "  {", "    j++;", "    n += j;", "  }", "  while (j < i)", "  i++;", "}", "return n;"]))
add("if-chain", fn("int a) -> int", ["if (a < 0)", "  return -1;", "else if (a == 0)", "  return 0;", "else", "  return 1;"]))
add("ret-missing", fn("int a) -> int", ["if (a > 0)", "{", "  return 1;", "}"]))
add("ret-void", fn("int a) -> void", ["g = a;", "return;"], "int g;\n"))
add("ret-void-fallthrough", fn("int a) -> void", ["g = a;"], "int g;\n"))
add("ret-void-value-used", fn("int a) -> int", ["int x = h(a);", "return x;"], "int g;\nfunction h(int q) -> void\n{\n  g = q;\n}\n"))
add("call-void-stmt", fn("int a) -> int", ["h(a);", "h(a + 1);", "return g;"], "int g;\nfunction h(int q) -> void\n{\n  g = g + q;\n}\n"))
add("empty-body", fn("int a) -> void", []))
add("block-only", fn("int a) -> int", ["{", "  {", "    a = a + 1;", "  }", "}", "return a;"]))
add("code-after-return", fn("int a) -> int", ["return a;", "a = a + 1;", "return a;"]))
add("break-in-nested-if", fn("int a) -> int", ["int n = 0;", "for (int i = 0; i < 5; ++i)", "{", "  if (i > a)", "  {", "    if (i % 2)", "    {", "      break;", "    }", "    continue;", "  }", "  n += i;", "}", "return n;"]))
# ---- assignments in expression positions
add("asg-chain", fn("int a) -> int", ["int x;", "int y;", "x = y = a;", "return x + y;"]))
add("asg-in-cond", fn("int a) -> int", ["int x;", "if (x = a)", "{", "  return x;", "}", "return -1;"]))
add("asg-as-arg", fn("int a) -> int", ["int x;", "return h(x = a) + x;"], "function h(int q) -> int\n{\n  return q * 2;\n}\n"))
add("asg-in-init", fn("int a) -> int", ["int x;", "int y = x = a;", "return x + y;"]))
add("inc-in-expr", fn("int a) -> int", ["int x = a++ + ++a;", "return x + a;"]))
add("inc-in-index", fn("int a) -> int", ["int[3] t;", "int i = 0;", "t[i++] = 5;", "return t[0] + i;"]))
add("decl-float-from-int", fn("int a) -> float", ["float x = a;", "float y = x / 2;", "return y;"]))
add("decl-int-from-float", fn("float a) -> int", ["int x = a;", "return x / 2;"]))
add("ret-int-from-float", fn("float a) -> int", ["return a * 2.0;"]))
add("ret-vec-mismatch", fn("float2 v) -> float3", ["return v;"]))
add("ret-float-from-int-vec", fn("int3 v) -> float3", ["return v;"]))
# ---- calls
add("call-implicit-cast", fn("int a) -> float", ["return h(a, a);"], "function h(float x, float y) -> float\n{\n  return x / 2 + y;\n}\n"))
add("call-vector-cast", fn("int2 v) -> float", ["return h(v);"], "function h(float2 q) -> float\n{\n  return q.x + q.y / 2;\n}\n"))
add("call-too-few", fn("int a) -> int", ["return h(a);"], "function h(int x, int y) -> int\n{\n  return x + y;\n}\n"))
add("call-unknown", fn("int a) -> int", ["return nosuch(a);"]))
add("call-recursive", fn("int a) -> int", ["if (a <= 0)", "{", "  return 0;", "}", "return a + f2(a - 1);"], "function f2(int a) -> int\n{\n  if (a <= 0)\n  {\n    return 0;\n  }\n  return a + f2(a - 1);\n}\n"))
add("call-overload-vec", fn("float3 v, float a) -> float", ["return h(v) + h(a) + h(v.xy);"], "function h(float q) -> float\n{\n  return 1.0;\n}\nfunction h(float2 q) -> float\n{\n  return 2.0;\n}\nfunction h(float3 q) -> float\n{\n  return 3.0;\n}\n"))
add("call-matrix-arg", fn("float3x3 m, float3 v) -> float3", ["return h(m, v);"], "function h(float3x3 q, float3 w) -> float3\n{\n  q[0][0] = 9.0;\n  return q * w;\n}\n"))
add("call-nested-args", fn("int a) -> int", ["return h(h(a, 1), h(2, h(a, a)));"], "function h(int x, int y) -> int\n{\n  x = x + y;\n  return x * 2;\n}\n"))
add("call-exported", fn("int a) -> int", ["return e2(a) + 1;"], "export function e2(int q) -> int\n{\n  return q * 3;\n}\n"))
add("call-optional", fn("int a) -> int", ["return h(a) + h(a, 2);"], "function h(int x, __optional int y) -> int\n{\n  return x;\n}\n"))
# ---- globals of every type
for t in ("int", "uint", "float", "float3", "int2", "float3x3"):
    add(f"global-{t}", fn(f"{t} a) -> {t}", ["g = a;", "g += a;", "return g;"], f"{t} g;\n"))
add("global-array", fn("int i) -> int", ["g[i] = i;", "g[0] += 2;", "return g[i] + g[0];"], "int[4] g;\n"))
add("global-init", fn("int a) -> int", ["return g + a;"], "int g = 5;\n"))
# ---- numeric corners
add("uint-arith", fn("uint a, uint b) -> uint", ["uint c = a * b + a / (b + 1) + a % (b + 1);", "return c - a;"]))
add("uint-mixed", fn("uint a, int b, float c) -> float", ["return a + b + c * a - b / (a + 1);"]))
add("uint-cmp", fn("uint a, int b) -> int", ["return (a > b) + (a <= b) + (a == b) + (a != b) + (a >= b) + (a < b);"]))
add("uint-negative", fn("int b) -> uint", ["uint a = b;", "return a;"]))
add("lit-forms", fn("int a) -> float", ["int x = 0x10 + 010 + 12;", "float y = 1.5f + 1e2 + .5 + 2.;", "return x + y + a;"]))
add("lit-big", fn("int a) -> int", ["return a + 2147483647 + 4294967296;"]))
add("logic-float", fn("float a, float b) -> float", ["return (a && b) + (a || b) + (a && 0) * 2;"]))
add("cmp-chain", fn("int a, int b, int c) -> int", ["return a < b < c == 1 != 0;"]))
add("mod-float", fn("float a, float b) -> float", ["return a % b;"]))
add("mod-mixed", fn("int a, float b) -> float", ["return a % b + b % a;"]))
add("div-int-neg", fn("int a, int b) -> int", ["return -7 / 2 + a / b + a % b;"]))
add("vec-logic", fn("float3 v, float3 w) -> float3", ["return v && w;"]))
add("vec-mod", fn("int3 v, int3 w) -> int3", ["return v % w;"]))
add("vec-scalar-add", fn("float3 v, float a) -> float3", ["return v + a;"]))
add("vec-cmp-scalar", fn("float3 v, float a) -> int3", ["return v < a;"]))
add("vec-vec-mul", fn("float3 v, float3 w) -> float3", ["return v * w;"]))
add("vec-vec-div", fn("float3 v, float3 w) -> float3", ["return v / w;"]))
add("vec-if", fn("float2 v) -> int", ["if (v)", "{", "  return 1;", "}", "return 0;"]))
add("vec-while", fn("int2 v) -> int", ["int n = 0;", "while (v == v)", "{", "  n++;", "  if (n > 2)", "  {", "    break;", "  }", "}", "return n;"]))
add("mat-vec-mixed", fn("float3x3 m, int3 v) -> float3", ["return m * v;"]))
add("mat-scalar-int", fn("float3x3 m, int a) -> float3x3", ["return m * a + a * m;"]))
add("mat-div-scalar", fn("float4x4 m, int a) -> float4x4", ["return m / a;"]))
add("matrix3x3-alias", fn("matrix3x3 m) -> float3", ["return m[1];"]))

# ---- values outside every machine range: the VM's integers are Python integers (they never wrap at 32 bits) and its floats
# reach infinity / NaN; converting such a value stops with a Python exception (known findings, see DESIGN.md)
_SQ_I = ["int x = 3;", "for (int i = 0; i < 12; i++)", "{", "  x = x * x;", "}"]
_SQ_F = ["float x = 3.0;", "for (int i = 0; i < 12; i++)", "{", "  x = x * x;", "}"]
add("range-hugeint-to-float", fn("int a) -> float", _SQ_I + ["float y = x;", "return y + 1.0;"]))
add("range-hugeint-div-float", fn("int a) -> float", _SQ_I + ["return x / 2.0;"]))
add("range-inf-to-int", fn("int a) -> int", _SQ_F + ["return int(x);"]))
add("range-nan-to-int", fn("int a) -> int", _SQ_F + ["return int(x - x);"]))

# ---- aggregates nested in aggregates: every element type an array can have, as local, global and structure field
_P = "struct P\n{\n  float a;\n  int k;\n}\n"
_T = _P + "struct T\n{\n  P[2] items;\n  P one;\n  float3[2] vs;\n  int[2][3] grid;\n}\n"
add("nest-local-struct-with-array-of-struct", fn("int i) -> float", ["T t;", "t.items[1].a = 2.5;", "t.items[i % 2].k += 1;", "return t.items[1].a + t.items[0].k + t.one.a;"], _T))
add("nest-local-array-of-struct", fn("int i) -> float", ["P[3] ps;", "ps[i % 3].a = 1.5;", "ps[2].k = 4;", "return ps[0].a + ps[2].k;"], _P))
add("nest-local-array2-of-struct", fn("int i) -> float", ["P[2][2] ps;", "ps[1][i % 2].a = 1.5;", "return ps[1][0].a + ps[0][1].k;"], _P))
add("nest-global-array-of-struct", _P + "P[3] gp;\n" + fn("int i) -> float", ["gp[i % 3].a += 1.5;", "return gp[0].a + gp[1].a + gp[2].k;"]))
add("nest-global-struct-with-arrays", _T + "T gt;\n" + fn("int i) -> float", ["gt.vs[i % 2].y = 2.0;", "gt.grid[1][i % 3] = 7;", "gt.items[0].a = gt.vs[1].y;", "return gt.items[0].a + gt.grid[1][2];"]))
add("nest-local-array-of-vectors", fn("int i) -> float", ["float3[2] vs;", "int2[3] ws;", "float3x3[2] ms;", "vs[i % 2].z = 1.5;", "ws[2].x = 3;", "ms[1][2][i % 3] = 0.5;", "return vs[0].z + vs[1].z + ws[2].x + ms[1][2][0];"]))
add("nest-struct-copy-with-nested", fn("int i) -> float", ["T t;", "T u;", "t.items[1].a = 4.5;", "u = t;", "u.items[1].a = 1.0;", "P q = t.items[1];", "q.a = 9.0;", "return t.items[1].a + u.items[1].a + q.a;"], _T))
add("nest-param-struct-with-array-of-struct", _T + "function h(T t, int i) -> float\n{\n  t.items[i % 2].a = 3.0;\n  return t.items[0].a + t.items[1].a;\n}\n" + fn("int i) -> float", ["T t;", "return h(t, i) + t.items[0].a;"]))

# ---- an index expression of float type in every position an index can stand in (rejected today; if a front end ever lets one
# through, the run must not end in a Python TypeError)
_FI = "function g(int q) -> int\n{\n  return q + 1;\n}\n"
for _name, _body in [("plain", ["int[3] t;", "return t[a];"]), ("first-of-two", ["int[2][3] t;", "return t[a][i % 3];"]), ("second-of-two", ["int[2][3] t;", "return t[i % 2][a];"]),
                     ("matrix-row", ["float3x3 m;", "return m[a][1];"]), ("matrix-col", ["float3x3 m;", "return m[1][a];"]), ("index-of-index", ["int[3] t;", "float[3] u;", "return t[u[a]];"]),
                     ("inner-float", ["int[3] t;", "int[3] u;", "return t[u[a] % 3];"]), ("call-argument", ["int[3] t;", "return g(t[a]);"]), ("store", ["int[3] t;", "t[a] = i;", "return t[0];"]),
                     ("compound", ["int[3] t;", "t[a] += i;", "return t[0];"]), ("vector", ["float3 v;", "return v[a];"]), ("struct-field", ["S0 s;", "int[2] t;", "return t[s.b];"]),
                     ("expr", ["int[3] t;", "return t[a * 2.0];"]), ("member-array", ["S1 s;", "return s.arr[a];"])]:
    add("floatidx-" + _name, fn("float a, int i) -> float", _body, (S2 if "S1" in " ".join(_body) else S) + _FI))

# ---- a declaration as the un-braced branch of an if / else / loop, used afterwards (rejected today: the variable is not visible after
# the branch); the branch is not taken for small inputs
add("leak-if-decl", fn("int a) -> int", ["if (a > 1000) int x = 5;", "return x + a;"]))
add("leak-else-decl", fn("int a) -> int", ["if (a < 1000) a = a + 1; else int x = 5;", "return x + a;"]))
add("leak-if-decl-vector", fn("int a) -> float", ["if (a > 1000) float3 v = float3(1, 2, 3);", "return v.y + a;"]))
add("leak-while-decl", fn("int a) -> int", ["while (a > 1000) int x = 5;", "return x + a;"]))
add("leak-for-decl", fn("int a) -> int", ["for (int i = 0; i < a - 1000; ++i) int x = 5;", "return x + a;"]))
# ---- float literals in integer positions whose value is then used as an index (call argument, constructor argument, initialiser)
_HI = "function h(int i) -> int\n{\n  int[3] t;\n  t[1] = 7;\n  return t[i];\n}\n"
add("litidx-call", fn("int a) -> int", ["return h(1.5) + a;"], _HI))
add("litidx-call2", fn("int a) -> int", ["int[3] t;", "return t[h(0.5)] + h(2.0);"], _HI))
add("litidx-cons", fn("int a) -> int", ["int[3] t;", "int2 k = int2(1.5, 0);", "return t[k.x] + a;"]))
add("litidx-cons-direct", fn("int a) -> int", ["int[3] t;", "return t[int2(2.5, 0).x] + a;"]))
add("litidx-scalar-cons", fn("int a) -> int", ["int[3] t;", "int k = int(1.5);", "return t[k] + a;"]))
add("litidx-uint", fn("int a) -> int", ["int[3] t;", "uint k = uint(2.5);", "return t[k] + a;"]))
