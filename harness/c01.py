"""C01 - compiled programs compute what the source says (scalar core, VM).

Refinement check: a seeded generator produces programs of the scalar core as data; the
real compiler and VM run them; spec/NslSem.tla (through MC_Sem) runs the same programs on
the same inputs inside TLC, one behaviour per case, with the machine's own properties
(frame isolation, call discipline, stack discipline) checked on every behaviour; the
driver compares the returned value and the final globals exactly (dyadic rationals, no
tolerance).  Runs that need a choice the statement leaves open end "ood" in the
specification and are not judged.
"""
import multiprocessing as mp

import common
import nslast as A
import nslgen
import semrun

FEAT = dict(vectors=False, uint=False)


def gen_case(seed, i, feat, ninputs=3):
    g = nslgen.Gen(seed * 1000003 + i, feat)
    prog = g.program()
    inputs = [g.inputs(prog) for _ in range(ninputs)]
    return prog, inputs


OPS13 = ["+", "-", "*", "/", "%", "<", "<=", ">", ">=", "==", "!=", "&&", "||"]


def family():
    """Deterministic family: every operator on every combination of declared type (int/float) and
    initialiser kind (int literal, float literal, int parameter, float parameter) of its two operands -
    the declared type of a variable and the representation of the value stored in it can differ
    (float x = 7), and the operation must follow the declared types."""
    inits = [("li", A.lit_i(7)), ("lf", A.lit_f(5, 1)), ("pa", A.var("a")), ("pb", A.var("b"))]
    out = []
    for op in OPS13:
        for t1 in (A.INT, A.FLOAT):
            for t2 in (A.INT, A.FLOAT):
                for n1, e1 in inits:
                    for n2, e2 in inits:
                        body = A.block([A.decl("x", t1, e1), A.decl("y", t2, e2), A.ret(A.bin_(op, A.var("x"), A.var("y")))])
                        prog = A.prog([], [A.func("f", [("a", A.INT), ("b", A.FLOAT)], A.FLOAT, body, True)])
                        inputs = [({"a": A.enc(a, A.INT), "b": A.enc(b, A.FLOAT)}, {}) for a, b in ((7, 2.0), (3, 0.5), (-5, 4.0))]
                        out.append((prog, inputs))
    return out


def work(job):
    seed, lo, hi, feat, options = job
    out = []
    fam = family() if lo < 0 else None
    for i in range(lo, hi):
        prog, inputs = fam[i + len(fam)] if fam is not None else gen_case(seed, i, feat)
        src = A.pp(prog)
        try:
            with common.time_limit(120):
                st, r, info = common.compile_traced(src, options)
        except common.CaseTimeout:
            out.append({"i": i, "compile": "timeout", "src": src})
            continue
        rec = {"i": i, "prog": prog, "src": src, "compile": st, "why": None if st == "ok" else str(r)[:160],
               "failed_pass": info["failed_pass"], "hook_ok": info["hook_ok"], "runs": []}
        if st == "ok":
            try:
                program = A.link(r)
            except BaseException as e:  # noqa
                rec["compile"] = "link-error"
                rec["why"] = f"{type(e).__name__}: {e}"[:160]
                out.append(rec)
                continue
            for j, (args, gl) in enumerate(inputs):
                obs = A.run_vm(program, "f", {k: A.dec(v) for k, v in args.items()}, {k: A.dec(v) for k, v in gl.items()}, budget=300000)
                obs["ret_repr"] = A.show_py(obs.get("ret"))
                rec["runs"].append({"j": j, "args": args, "globals": gl, "obs": obs})
        out.append(rec)
    return out


def collect(ctx, n, feat, options, chunk=25, with_family=False):
    jobs = [(ctx.seed, lo, min(n, lo + chunk), feat, options) for lo in range(0, n, chunk)]
    if with_family:
        nf = len(family())
        # family members get negative indices -nf .. -1 (one job: family() is rebuilt per job)
        jobs += [(ctx.seed, -nf + lo, -nf + min(nf, lo + 64), feat, options) for lo in range(0, nf, 64)]
    with mp.Pool(16) as pool:
        res = pool.map(work, jobs)
    return [r for out in res for r in out]


def sem_batch(ctx, recs):
    progs, cases = [], []
    for r in recs:
        if "prog" not in r:
            continue
        progs.append(r["prog"])
        for run in r["runs"] if r["compile"] == "ok" else []:
            cases.append({"id": f"{r['i']}/{run['j']}", "p": len(progs), "entry": "f", "args": run["args"], "globals": run["globals"]})
    return progs, cases


def run(ctx, args):
    n = 300 if ctx.tier == "quick" else 4000
    recs = collect(ctx, n, FEAT, {"optimize": False}, with_family=True)
    if any(r.get("hook_ok") is False for r in recs):
        raise common.Machinery("compiler hook silent (NSL_VERIF hook missing from the tree under test?)")
    progs, cases = sem_batch(ctx, recs)
    sem = {}
    # TLC in slices so that one run stays below a few million states
    for lo in range(0, len(cases), 3000):
        part = cases[lo:lo + 3000]
        sem.update(semrun.run_sem(ctx, progs, part))
    counts = {}
    samples = []
    nontrivial = set()
    for r in recs:
        if r["compile"] != "ok":
            # the generator only produces programs the language accepts
            key = "rejects-generated-program:" + (r.get("failed_pass") or ":".join(str(r.get("why")).split(":")[:2]))
            ctx.violation(key, f"the compiler refuses a well-typed scalar-core program ({r.get('why')})", {"source": r.get("src"), "i": r["i"]})
            continue
        for run in r["runs"]:
            s = sem[f"{r['i']}/{run['j']}"]
            kind, detail = semrun.judge(s, run["obs"])
            counts[kind + (":" + detail if kind == "unjudged" and len(detail) < 12 else "")] = counts.get(kind + (":" + detail if kind == "unjudged" and len(detail) < 12 else ""), 0) + 1
            if kind == "agree":
                if s["steps"] > 40:
                    nontrivial.add(r["i"])
                if len(samples) < 3 and s["steps"] > 150:
                    samples.append({"source": r["src"], "args": {k: A.dec(v) for k, v in run["args"].items()},
                                    "globals_before": {k: A.dec(v) for k, v in run["globals"].items()},
                                    "prescribed": {"ret": semrun.show_spec(s["ret"]), "steps": s["steps"]}, "vm_returned": run["obs"]["ret_repr"]})
            elif kind not in ("unjudged", "defined-fail"):
                case = {"source": r["src"], "args": {k: A.dec(v) for k, v in run["args"].items()},
                        "globals_before": {k: A.dec(v) for k, v in run["globals"].items()},
                        "reference": {"status": s["status"], "ret": s["ret"], "globals": s["globals"], "steps": s["steps"]},
                        "vm": {k: run["obs"].get(k) for k in ("ok", "ret_repr", "exc", "msg", "where")}, "generator_index": r["i"], "seed": ctx.seed}
                key = kind + (":" + run["obs"]["exc"] + ":" + run["obs"]["where"] if kind == "vm-error" else "")
                ctx.violation(key, detail, case)
    judged = counts.get("agree", 0)
    if judged < len(cases) // 4 and not ctx.violations:
        raise common.Machinery(f"only {judged} of {len(cases)} runs were judged: the generator drifted out of the property's domain")
    return common.finish(
        ctx, level="model_checking", evaluations=len(cases), distinct_nontrivial=len(nontrivial),
        rule=f"a deterministic family of {len(family())} programs (13 operators x declared types x initialiser kinds of both operands) and {n} seeded programs of the scalar core (int/float scalars, local arrays and structs, all 13 operators, = += -= *= /=, ++/--, if/else, "
             "for/while/do with break/continue, early return, globals, calls) x 3 inputs; each case is one behaviour of NslSem in TLC "
             "(invariants Finished, FrameExists, GlobalsStable; properties FrameIsolation, CallDiscipline) and one run of the real compiler + VM; "
             "returned value and final globals compared exactly. distinct_nontrivial = programs with at least one judged run of more than 40 reference steps.",
        samples=samples or [{"note": "no long agreeing run in this batch"}], traces_validated=judged,
        assumptions=["not judged: runs the reference ends as ood (overflow beyond 2^30, float->int of a non-integral value, % with a negative operand, "
                     "non-dyadic float result, order-sensitive evaluation, impure right operand of && / ||), fuel, division by zero, index out of range",
                     "5 and 5.0 are the same value"],
        extra={"outcome_counts": counts, "programs": n, "cases": len(cases)})
