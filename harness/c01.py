"""C01 - compiled programs compute what the source says (scalar core, VM).

Refinement check: a seeded generator produces programs of the scalar core as data; the
real compiler and VM run them; spec/NslSem.tla (through MC_Sem) runs the same programs on
the same inputs inside TLC, one behaviour per case, with the machine's own properties
(frame isolation, call discipline, stack discipline) checked on every behaviour; the
driver compares the returned value and the final globals exactly (dyadic rationals, no
tolerance).  Runs that need a choice the statement leaves open end "ood" in the
specification and are not judged.
"""
import multiprocessing as mp

import common
import irmachine
import nslast as A
import nslgen
import semrun

IRM_PROGRAMS = {"quick": 100, "thorough": 1200}     # generated programs whose VM runs are also validated instruction by instruction

FEAT = dict(vectors=False, uint=False)


def gen_case(seed, i, feat, ninputs=3):
    g = nslgen.Gen(seed * 1000003 + i, feat)
    prog = g.program()
    inputs = [g.inputs(prog) for _ in range(ninputs)]
    return prog, inputs


OPS13 = ["+", "-", "*", "/", "%", "<", "<=", ">", ">=", "==", "!=", "&&", "||"]


def family():
    """Deterministic family: every operator on every combination of declared type (int/float) and
    initialiser kind (int literal, float literal, int parameter, float parameter) of its two operands -
    the declared type of a variable and the representation of the value stored in it can differ
    (float x = 7), and the operation must follow the declared types."""
    inits = [("li", A.lit_i(7)), ("lf", A.lit_f(5, 1)), ("pa", A.var("a")), ("pb", A.var("b"))]
    out = []
    for op in OPS13:
        for t1 in (A.INT, A.FLOAT):
            for t2 in (A.INT, A.FLOAT):
                for n1, e1 in inits:
                    for n2, e2 in inits:
                        body = A.block([A.decl("x", t1, e1), A.decl("y", t2, e2), A.ret(A.bin_(op, A.var("x"), A.var("y")))])
                        prog = A.prog([], [A.func("f", [("a", A.INT), ("b", A.FLOAT)], A.FLOAT, body, True)])
                        inputs = [({"a": A.enc(a, A.INT), "b": A.enc(b, A.FLOAT)}, {}) for a, b in ((7, 2.0), (3, 0.5), (-5, 4.0))]
                        out.append((prog, inputs))
    # one declared variable used directly after its initialiser (where a load-after-store forwarding applies), on either side
    for op in OPS13:
        for t1 in (A.INT, A.FLOAT):
            for n1, e1 in inits:
                for n2, e2 in inits:
                    for side in (0, 1):
                        e = A.bin_(op, A.var("x"), e2) if side == 0 else A.bin_(op, e2, A.var("x"))
                        prog = A.prog([], [A.func("f", [("a", A.INT), ("b", A.FLOAT)], A.FLOAT, A.block([A.decl("x", t1, e1), A.ret(e)]), True)])
                        out.append((prog, [({"a": A.enc(a, A.INT), "b": A.enc(b, A.FLOAT)}, {}) for a, b in ((7, 2.0), (-5, 4.0))]))
    return out


def family_redecl():
    """Second deterministic family: a declaration without initialiser that executes more than once in one
    invocation (for / while / do bodies, a block executed twice through a called function) and is read before
    it is written: int, float, structure field, array element.  Every execution starts from zero."""
    V, L, B = A.var, A.lit_i, A.bin_
    S = A.struct("S0", [("a", A.INT), ("b", A.FLOAT)])
    kinds = [("int", A.INT, lambda: V("t")), ("float", A.FLOAT, lambda: V("t")), ("struct", S, lambda: A.mem(V("t"), "a")),
             ("structf", S, lambda: A.mem(V("t"), "b")), ("arr", A.arr(A.INT, [3]), lambda: A.idx(V("t"), L(1))),
             ("arr2", A.arr(A.INT, [2, 2]), lambda: A.idx(A.idx(V("t"), L(1)), L(0)))]
    out = []
    for kn, ty, lv in kinds:
        body = [A.decl("t", ty), A.estmt(A.casg("+", lv(), B("+", V("i"), L(1)))), A.estmt(A.casg("+", V("acc"), lv()))]
        for loop in ("for", "while", "do", "nested", "callee"):
            pre = [A.decl("acc", A.FLOAT, L(0)), A.decl("i", A.INT, L(0))]
            step = A.estmt(A.asg(V("i"), B("+", V("i"), L(1))))
            if loop == "for":
                stmts = pre + [A.for_(None, B("<", V("i"), V("n")), A.asg(V("i"), B("+", V("i"), L(1))), A.block(list(body)))]
            elif loop == "while":
                stmts = pre + [A.while_(B("<", V("i"), V("n")), A.block(list(body) + [step]))]
            elif loop == "do":
                stmts = pre + [A.do_(A.block(list(body) + [step]), B("<", V("i"), V("n")))]
            elif loop == "nested":
                stmts = pre + [A.while_(B("<", V("i"), V("n")), A.block([A.if_(B(">", V("i"), L(0)), A.block(list(body)), A.block(list(body))), step]))]
            else:
                stmts = None
            if stmts is not None:
                funcs = [A.func("f", [("n", A.INT)], A.FLOAT, A.block(stmts + [A.ret(V("acc"))]), True)]
            else:
                # the declaration sits in a helper that is called repeatedly: each activation has its own variable
                helper = A.func("h", [("i", A.INT)], A.FLOAT, A.block([A.decl("acc", A.FLOAT, L(0))] + list(body) + [A.ret(V("acc"))]))
                funcs = [helper, A.func("f", [("n", A.INT)], A.FLOAT, A.block(
                    [A.decl("acc", A.FLOAT, L(0)), A.decl("i", A.INT, L(0)),
                     A.while_(B("<", V("i"), V("n")), A.block([A.estmt(A.casg("+", V("acc"), A.call("h", [V("i")]))), step])), A.ret(V("acc"))]), True)]
            prog = A.prog([], funcs, [S] if kn.startswith("struct") else [])
            out.append((prog, [({"n": A.enc(n, A.INT)}, {}) for n in (1, 2, 4)]))
    # whole arrays and structures assigned and initialised from one another: the copy is independent of its source
    arr3 = A.arr(A.INT, [3])
    for kn, ty, el in (("arr", arr3, lambda v: A.idx(V(v), L(1))), ("struct", S, lambda v: A.mem(V(v), "a")), ("arr2", A.arr(A.INT, [2, 2]), lambda v: A.idx(A.idx(V(v), L(1)), L(0)))):
        for how in ("assign", "init", "chain", "back"):
            stmts = [A.decl("s", ty), A.estmt(A.asg(el("s"), V("n")))]
            if how == "assign":
                stmts += [A.decl("d", ty), A.estmt(A.asg(V("d"), V("s"))), A.estmt(A.asg(el("d"), L(50)))]
            elif how == "init":
                stmts += [A.decl("d", ty, V("s")), A.estmt(A.casg("+", el("d"), L(7)))]
            elif how == "chain":
                stmts += [A.decl("d", ty), A.decl("e", ty), A.estmt(A.asg(V("d"), V("s"))), A.estmt(A.asg(V("e"), V("d"))), A.estmt(A.asg(el("e"), L(9))), A.estmt(A.asg(el("s"), B("+", el("s"), el("e"))))]
            else:
                stmts += [A.decl("d", ty), A.estmt(A.asg(V("d"), V("s"))), A.estmt(A.asg(el("s"), L(3))), A.estmt(A.asg(V("s"), V("d"))), A.estmt(A.asg(el("d"), L(4)))]
            stmts.append(A.ret(B("+", B("*", el("s"), L(100)), el("d"))))
            out.append((A.prog([], [A.func("f", [("n", A.INT)], A.FLOAT, A.block(stmts), True)], [S] if kn == "struct" else []), [({"n": A.enc(n, A.INT)}, {}) for n in (1, 6)]))
    return out


def family_affix():
    """++ and --, prefix and postfix, on int and float variables, with the VALUE of the expression used: as initialiser, in a loop
    condition, as operand and as array index."""
    V, L, B = A.var, A.lit_i, A.bin_
    out = []
    for t in (A.INT, A.FLOAT):
        for op in ("+", "-"):
            for pre in (True, False):
                e = lambda: A.inc("n", op, pre)  # noqa
                bodies = [
                    [A.decl("a", t, e()), A.ret(B("+", B("*", V("a"), L(100)), V("n")))],
                    [A.decl("c", A.INT, L(0)), A.while_(B(">", e(), L(0)) if op == "-" else B("<", e(), L(4)), A.block([A.estmt(A.casg("+", V("c"), L(1)))])), A.ret(B("+", B("*", V("c"), L(100)), V("n")))],
                    [A.decl("a", t, B("+", e(), B("*", V("n"), L(10)))), A.ret(B("+", V("a"), V("n")))],
                ]
                if t is A.INT:
                    bodies.append([A.decl("t", A.arr(A.INT, [6])), A.estmt(A.asg(A.idx(V("t"), L(2)), L(5))), A.estmt(A.asg(A.idx(V("t"), L(3)), L(7))), A.estmt(A.asg(A.idx(V("t"), L(1)), L(3))),
                                   A.decl("a", A.INT, A.idx(V("t"), e())), A.ret(B("+", B("*", V("a"), L(100)), V("n")))])
                for body in bodies:
                    prog = A.prog([], [A.func("f", [("n", t)], A.FLOAT, A.block(body), True)])
                    out.append((prog, [({"n": A.enc(v, t)}, {}) for v in ((2, 3) if t is A.INT else (2.0, 2.5))]))
    return out


_FAM = None


def all_family():
    global _FAM
    if _FAM is None:
        _FAM = family() + family_affix() + family_redecl()
    return _FAM


def work(job):
    seed, lo, hi, feat, options = job[:5]
    irm_limit = job[5] if len(job) > 5 else None
    out = []
    fam = all_family() if lo < 0 else None
    for i in range(lo, hi):
        prog, inputs = fam[i + len(fam)] if fam is not None else gen_case(seed, i, feat)
        src = A.pp(prog)
        try:
            with common.time_limit(120):
                st, r, info = common.compile_traced(src, {k: v for k, v in options.items() if not k.startswith("_")})
        except common.CaseTimeout:
            out.append({"i": i, "compile": "timeout", "src": src})
            continue
        rec = {"i": i if not options.get("_tag") else f"{i}{options['_tag']}", "prog": prog, "src": src, "compile": st, "why": None if st == "ok" else str(r)[:160],
               "failed_pass": info["failed_pass"], "hook_ok": info["hook_ok"], "runs": []}
        if st == "ok":
            try:
                program = A.link(r)
            except BaseException as e:  # noqa
                rec["compile"] = "link-error"
                rec["why"] = f"{type(e).__name__}: {e}"[:160]
                out.append(rec)
                continue
            for j, (args, gl) in enumerate(inputs):
                obs = A.run_vm(program, "f", {k: A.dec(v) for k, v in args.items()}, {k: A.dec(v) for k, v in gl.items()}, budget=300000)
                obs["ret_repr"] = A.show_py(obs.get("ret"))
                rec["runs"].append({"j": j, "args": args, "globals": gl, "obs": obs})
            if irm_limit is not None and isinstance(rec["i"], int) and (0 <= i < irm_limit or -len(family_redecl()) <= i < 0):
                # the same runs once more with the instruction tracer, for spec/IRMachine.tla
                from nsl import LinearIR as L
                params = [p_["n"] for p_ in [f for f in prog["funcs"] if f["name"] == "f"][0]["params"]]
                rec["irm"] = {"mod": irmachine.machine_module(program, L), "runs": []}
                for j, (args, gl) in enumerate(inputs[:2]):
                    obs, ev, trunc = irmachine.trace_run(program, L, "f", {k: A.dec(v) for k, v in args.items()}, {k: A.dec(v) for k, v in gl.items()})
                    rec["irm"]["runs"].append({"j": j, "args": [args[n] for n in params], "globals": gl, "obs": obs, "events": ev, "truncated": trunc})
        out.append(rec)
    return out


def collect(ctx, n, feat, options, chunk=25, with_family=False, irm_limit=None):
    jobs = [(ctx.seed, lo, min(n, lo + chunk), feat, options, irm_limit) for lo in range(0, n, chunk)]
    if with_family:
        nf = len(all_family())
        # family members get negative indices -nf .. -1 (one job: family() is rebuilt per job)
        jobs += [(ctx.seed, -nf + lo, -nf + min(nf, lo + 64), feat, options, irm_limit) for lo in range(0, nf, 64)]
        # the deterministic family once more with optimisation on (what the source says does not depend on the option)
        jobs += [(ctx.seed, -nf + lo, -nf + min(nf, lo + 64), feat, dict(options, optimize=True, _tag="O1"), None) for lo in range(0, nf, 64)]
    with mp.Pool(16) as pool:
        res = pool.map(work, jobs)
    return [r for out in res for r in out]


def sem_batch(ctx, recs):
    progs, cases = [], []
    for r in recs:
        if "prog" not in r:
            continue
        progs.append(r["prog"])
        for run in r["runs"] if r["compile"] == "ok" else []:
            cases.append({"id": f"{r['i']}/{run['j']}", "p": len(progs), "entry": "f", "args": run["args"], "globals": run["globals"]})
    return progs, cases


def irm_validate(ctx, recs, options_text):
    """Instruction-level trace validation (spec/IRMachine.tla) of the traced runs in recs.  Returns outcome counts."""
    mods, cases, meta = [], [], {}
    for r in recs:
        if "irm" not in r:
            continue
        mods.append(r["irm"]["mod"])
        for run in r["irm"]["runs"]:
            cid = f"{r['i']}/{run['j']}"
            cases.append({"id": cid, "m": len(mods), "entry": "f", "args": run["args"], "globals": run["globals"], "trace": run["events"]})
            meta[cid] = (r, run)
    counts = {"cases": len(cases), "events": sum(len(c["trace"]) for c in cases)}
    for lo in range(0, len(cases), 400):
        part = cases[lo:lo + 400]
        used = sorted({c["m"] for c in part})
        remap = {m: k + 1 for k, m in enumerate(used)}
        verdicts, _ = irmachine.run_machine(ctx, [mods[m - 1] for m in used], [dict(c, m=remap[c["m"]]) for c in part], name=f"irm-{lo}.json")
        for cid, v in verdicts.items():
            r, run = meta[cid]
            kind, detail = irmachine.judge(v, run["obs"], run["events"], run["truncated"])
            counts[kind] = counts.get(kind, 0) + 1
            if kind in ("agree", "unjudged", "defined-fail"):
                continue
            at = v["lastidx"] - 1 if kind == "step-result" else max(0, min(v["l"], len(run["events"])) - 1)
            op = run["events"][at]["op"] if run["events"] else "?"
            # A step of the VM that is not a step of the IR machine is a divergence between nsl/VM.py and spec/IRMachine.tla.  The listed
            # properties speak about returned values, globals and failures, which the other parts of the checks judge; the step-level
            # divergence is therefore reported as a note that localises a fault (and is attached to the evidence), not as a verdict.
            counts[f"diverging:{kind}:{op}"] = counts.get(f"diverging:{kind}:{op}", 0) + 1
            if sum(v_ for k_, v_ in counts.items() if k_.startswith("diverging:")) <= 3:
                msg = (f"CONFORMANCE-NOTE (localisation, not a verdict): {options_text}: the VM's instruction trace is not a behaviour of spec/IRMachine.tla: {detail} "
                       f"[program {r['i']}, args {[A.dec(a) for a in run['args']]}]")
                print(msg[:600])
                ctx.notes.append(msg[:600])
                ctx.coverage_extra.setdefault("irmachine_divergences", []).append(
                    {"source": r["src"], "args": [A.dec(a) for a in run["args"]], "verdict": {k: v.get(k) for k in ("status", "why", "l", "lastidx", "fn", "pc", "depth", "spec")},
                     "events_around": run["events"][max(0, at - 6):at + 2]})
    return counts


def run(ctx, args):
    n = 300 if ctx.tier == "quick" else 4000
    recs = collect(ctx, n, FEAT, {"optimize": False}, with_family=True, irm_limit=IRM_PROGRAMS[ctx.tier])
    if any(r.get("hook_ok") is False for r in recs):
        raise common.Machinery("compiler hook silent (NSL_VERIF hook missing from the tree under test?)")
    progs, cases = sem_batch(ctx, recs)
    sem = {}
    # TLC in slices so that one run stays below a few million states
    for lo in range(0, len(cases), 3000):
        part = cases[lo:lo + 3000]
        sem.update(semrun.run_sem(ctx, progs, part))
    counts = {}
    samples = []
    nontrivial = set()
    for r in recs:
        if r["compile"] != "ok":
            # the generator only produces programs the language accepts
            key = "rejects-generated-program:" + (r.get("failed_pass") or ":".join(str(r.get("why")).split(":")[:2]))
            ctx.violation(key, f"the compiler refuses a well-typed scalar-core program ({r.get('why')})", {"source": r.get("src"), "i": r["i"]})
            continue
        for run in r["runs"]:
            s = sem[f"{r['i']}/{run['j']}"]
            kind, detail = semrun.judge(s, run["obs"])
            counts[kind + (":" + detail if kind == "unjudged" and len(detail) < 12 else "")] = counts.get(kind + (":" + detail if kind == "unjudged" and len(detail) < 12 else ""), 0) + 1
            if kind == "agree":
                if s["steps"] > 40:
                    nontrivial.add(str(r["i"]))
                if len(samples) < 3 and s["steps"] > 150:
                    samples.append({"source": r["src"], "args": {k: A.dec(v) for k, v in run["args"].items()},
                                    "globals_before": {k: A.dec(v) for k, v in run["globals"].items()},
                                    "prescribed": {"ret": semrun.show_spec(s["ret"]), "steps": s["steps"]}, "vm_returned": run["obs"]["ret_repr"]})
            elif kind not in ("unjudged", "defined-fail"):
                case = {"source": r["src"], "args": {k: A.dec(v) for k, v in run["args"].items()},
                        "globals_before": {k: A.dec(v) for k, v in run["globals"].items()},
                        "reference": {"status": s["status"], "ret": s["ret"], "globals": s["globals"], "steps": s["steps"]},
                        "vm": {k: run["obs"].get(k) for k in ("ok", "ret_repr", "exc", "msg", "where")}, "generator_index": r["i"], "seed": ctx.seed}
                key = kind + (":" + run["obs"]["exc"] + ":" + run["obs"]["where"] if kind == "vm-error" else "")
                ctx.violation(key, detail, case)
    irm = irm_validate(ctx, recs, "optimize=False")
    if irm.get("agree", 0) < irm["cases"] // 4 and not ctx.violations:
        raise common.Machinery(f"IRMachine judged only {irm.get('agree', 0)} of {irm['cases']} traced runs")
    judged = counts.get("agree", 0)
    if judged < len(cases) // 4 and not ctx.violations:
        raise common.Machinery(f"only {judged} of {len(cases)} runs were judged: the generator drifted out of the property's domain")
    return common.finish(
        ctx, level="model_checking", evaluations=len(cases), distinct_nontrivial=len(nontrivial),
        rule=f"a deterministic family of {len(all_family())} programs (13 operators x declared types x initialiser kinds of both operands; ++ / -- in prefix and postfix form with their value used; declarations without initialiser re-executed in for/while/do bodies, branches and callees for int, float, structure fields, array elements) and {n} seeded programs of the scalar core (int/float scalars, local arrays and structs, all 13 operators, = += -= *= /=, ++/--, if/else, "
             "for/while/do with break/continue, early return, globals, calls) x 3 inputs; each case is one behaviour of NslSem in TLC "
             "(invariants Finished, FrameExists, GlobalsStable; properties FrameIsolation, CallDiscipline) and one run of the real compiler + VM; "
             "returned value and final globals compared exactly. Trace validation: the runs of the first "
             f"{IRM_PROGRAMS[ctx.tier]} generated programs and of the re-declaration family are recorded instruction by instruction through the VM hook "
             f"({irm['events']} events in {irm['cases']} runs) and checked against spec/IRMachine.tla: every event must be the machine's next step and every "
             "register value the machine's value (property FrameIsolation on the recorded behaviour). distinct_nontrivial = programs with at least one judged run of more than 40 reference steps.",
        samples=samples or [{"note": "no long agreeing run in this batch"}], traces_validated=judged,
        assumptions=["not judged: runs the reference ends as ood (overflow beyond 2^30, float->int of a non-integral value, % with a negative operand, "
                     "non-dyadic float result, order-sensitive evaluation, impure right operand of && / ||), fuel, division by zero, index out of range",
                     "5 and 5.0 are the same value"],
        extra={"outcome_counts": counts, "programs": n, "cases": len(cases), "irmachine_trace_validation": irm})


def selftest(ctx, args):
    """Negative controls for the instruction-trace binding: recorded traces of a few programs are accepted; the same traces
    with one logged value changed, one event removed, one opcode renamed, or with the hook silent are rejected, and the
    verdict points at the manipulated event."""
    import copy
    import json
    from nsl import LinearIR as L
    mods, cases, meta = [], [], {}
    for i in range(12):
        prog, inputs = gen_case(4242, i, FEAT)
        st, r, info = common.compile_traced(A.pp(prog), {"optimize": False})
        if st != "ok":
            continue
        program = A.link(r)
        params = [p_["n"] for p_ in [f for f in prog["funcs"] if f["name"] == "f"][0]["params"]]
        args_, gl = inputs[0]
        obs, ev, trunc = irmachine.trace_run(program, L, "f", {k: A.dec(v) for k, v in args_.items()}, {k: A.dec(v) for k, v in gl.items()})
        if not obs["ok"] or trunc or len(ev) < 12:
            continue
        mods.append(irmachine.machine_module(program, L))
        base = {"m": len(mods), "entry": "f", "args": [args_[n] for n in params], "globals": gl}
        k = next((j for j in range(len(ev) // 2, len(ev)) if ev[j].get("res", {}).get("t") == "int"), None)
        variants = {"original": ev}
        if k is not None:
            e2 = copy.deepcopy(ev)
            e2[k]["res"]["v"] += 1
            variants[f"value-changed@{k}"] = e2
        mid = len(ev) // 2
        variants[f"event-removed@{mid}"] = ev[:mid] + ev[mid + 1:]
        e3 = copy.deepcopy(ev)
        e3[mid]["op"] = "CAST" if e3[mid]["op"] != "CAST" else "ADD"
        variants[f"opcode-renamed@{mid}"] = e3
        variants["hook-silent@0"] = []
        for name, evs in variants.items():
            cid = f"{i}:{name}"
            cases.append(dict(base, id=cid, trace=evs))
            meta[cid] = (obs, evs, name)
    verdicts, _ = irmachine.run_machine(ctx, mods, cases, name="irm-selftest.json")
    bad = 0
    summary = {}
    for cid, v in sorted(verdicts.items()):
        obs, evs, name = meta[cid]
        kind, detail = irmachine.judge(v, obs, evs, False)
        if name == "original":
            ok = kind in ("agree", "unjudged", "defined-fail")
        else:
            at = int(name.split("@")[1])
            where = (v["lastidx"] - 1) if v["status"] == "result-mismatch" else v["l"] - 1
            ok = kind in ("step-result", "step-diverged", "vm-error") and abs(where - at) <= 1
        summary[name.split("@")[0] + (":rejected" if name != "original" and ok else ":accepted" if name == "original" and ok else ":WRONG")] = \
            summary.get(name.split("@")[0] + (":rejected" if name != "original" and ok else ":accepted" if name == "original" and ok else ":WRONG"), 0) + 1
        if not ok:
            bad += 1
            print(f"SELFTEST-FAILED {cid}: verdict {kind} ({detail[:120]})")
    print("selftest C01 (IRMachine trace binding):", json.dumps(summary, sort_keys=True))
    return 0 if bad == 0 and any(k.endswith(":rejected") for k in summary) else 2


replay = common.replay_vm_case
