"""C13 - static checks on element selection: constant bounds, index type, swizzle mask.

Binding (A), exhaustive on the grid: spec/MC_C13.tla enumerates array shapes x constant
indices at every dimension, vector and matrix constants, index expression types and every
swizzle mask up to a length over xyzw / rgba / foreign letters, with the verdict of
NslStatic!ConstIndexOk / MaskOk (MaskOk is checked against a second formulation).  The
driver renders every case in several syntactic contexts (local, global, parameter; read and
write), compiles it with the real compiler and compares accept/reject.
"""
import multiprocessing as mp

import common


def dims(sh):
    return "".join(f"[{d}]" for d in sh)


def chain(ch):
    return "".join(f"[{c}]" for c in ch)


def render(case):
    """-> list of (context name, source)"""
    k = case["kind"]
    out = []
    if k == "arr":
        t = "int" + dims(case["shape"])
        acc = "t" + chain(case["chain"])
        out.append(("local-read", f"export function f(int a) -> int\n{{\n  {t} t;\n  return {acc};\n}}\n"))
        out.append(("local-write", f"export function f(int a) -> int\n{{\n  {t} t;\n  {acc} = a;\n  return a;\n}}\n"))
        out.append(("global-read", f"{t} t;\nexport function f(int a) -> int\n{{\n  return {acc} + a;\n}}\n"))
        out.append(("param-write", f"export function f(int a, {t} t) -> int\n{{\n  {acc} += a;\n  return a;\n}}\n"))
    elif k == "vec":
        t = f"float{case['size']}"
        out.append(("local-read", f"export function f(float a) -> float\n{{\n  {t} v;\n  return v[{case['c']}];\n}}\n"))
        out.append(("param-write", f"export function f({t} v, float a) -> {t}\n{{\n  v[{case['c']}] = a;\n  return v;\n}}\n"))
        out.append(("int-vector-read", f"export function f(int{case['size']} v) -> int\n{{\n  return v[{case['c']}] + 1;\n}}\n"))
    elif k == "mat":
        t = f"float{case['size']}x{case['size']}"
        out.append(("param-read", f"export function f({t} m) -> float\n{{\n  return m[{case['row']}][{case['col']}];\n}}\n"))
        out.append(("local-write", f"export function f(float a) -> {t}\n{{\n  {t} m;\n  m[{case['row']}][{case['col']}] = a;\n  return m;\n}}\n"))
    elif k == "ityp":
        it = case["it"]
        decl, expr = {"int-var": ("int i", "i"), "uint-var": ("uint i", "i"), "float-var": ("float i", "i"), "float-literal": ("int i", "1.0"),
                      "int2-var": ("int2 i", "i"), "float2-var": ("float2 i", "i"), "int-big-var": ("int i", "i + 100")}[it]
        if case["on"] == "arr":
            out.append(("read", f"export function f({decl}) -> int\n{{\n  int[3] t;\n  return t[{expr}];\n}}\n"))
            out.append(("write", f"export function f({decl}) -> int\n{{\n  int[3] t;\n  t[{expr}] = 4;\n  return 0;\n}}\n"))
        elif case["on"] == "vec":
            out.append(("read", f"export function f({decl}, float3 v) -> float\n{{\n  return v[{expr}];\n}}\n"))
        else:
            out.append(("read", f"export function f({decl}, float3x3 m) -> float3\n{{\n  return m[{expr}];\n}}\n"))
    elif k == "ibin":
        decl, expr = f"{case['l']} p, {case['r']} q", f"p {case['op']} q"
        if case["on"] == "arr":
            out.append(("read", f"export function f({decl}) -> int\n{{\n  int[3] t;\n  return t[{expr}];\n}}\n"))
            out.append(("write", f"export function f({decl}) -> int\n{{\n  int[3] t;\n  t[{expr}] = 4;\n  return 0;\n}}\n"))
        elif case["on"] == "vec":
            out.append(("read", f"export function f({decl}, float3 v) -> float\n{{\n  return v[{expr}];\n}}\n"))
        else:
            out.append(("read", f"export function f({decl}, float3x3 m) -> float3\n{{\n  return m[{expr}];\n}}\n"))
    elif k == "mask":
        n, m = case["size"], "".join(case["mask"])
        rt = "float" if len(m) == 1 else f"float{len(m)}"
        out.append(("read", f"export function f(float{n} v) -> {rt}\n{{\n  return v.{m};\n}}\n"))
        if len(set(m)) == len(m):
            val = "1.5" if len(m) == 1 else f"float{len(m)}(" + ", ".join(f"{j + 1}.5" for j in range(len(m))) + ")"
            out.append(("write", f"export function f(float{n} v) -> float{n}\n{{\n  v.{m} = {val};\n  return v;\n}}\n"))
    elif k == "big":
        n = case["hi"] * 2 ** 32 + case["lo"]
        if case["neg"]:
            n = -(n - 2 * case["lo"]) if case["lo"] else -n          # -(hi * 2^32 - lo): the low 32 bits are lo again
        lit = str(n)
        if case["on"] == "arr":
            out.append(("read", f"export function f(int a) -> int\n{{\n  int[3] t;\n  return t[{lit}];\n}}\n"))
            out.append(("write", f"export function f(int a) -> int\n{{\n  int[3] t;\n  t[{lit}] = a;\n  return a;\n}}\n"))
        elif case["on"] == "arr2":
            out.append(("read", f"export function f(int a) -> int\n{{\n  int[2][3] t;\n  return t[1][{lit}];\n}}\n"))
            out.append(("read-first", f"export function f(int a) -> int\n{{\n  int[2][3] t;\n  return t[{lit}][1];\n}}\n"))
        elif case["on"] == "vec":
            out.append(("read", f"export function f(int4 v) -> int\n{{\n  return v[{lit}];\n}}\n"))
        elif case["on"] == "matrow":
            out.append(("read", f"export function f(float3x3 m) -> float\n{{\n  return m[{lit}][0];\n}}\n"))
        else:
            out.append(("read", f"export function f(float3x3 m) -> float\n{{\n  return m[0][{lit}];\n}}\n"))
    elif k == "comp":
        def atom(a):
            if a["s"] == "arrc":
                return f"t[{a['c']}]"
            if a["s"] == "arrt":
                return "t[" + {"int-var": "i", "float-var": "x", "float-literal": "1.0"}[a["it"]] + "]"
            if a["s"] == "mask":
                return "iv." + "".join(a["m"]) + (".x" if len(a["m"]) > 1 else "")
            if a["s"] == "mask4":
                return "iv4." + "".join(a["m"])
            return f"iv[{a['c']}]"
        s1, s2 = atom(case["a"]), atom(case["b"])
        sig = "int[3] t, int2 iv, int i, float x, float3[4] a, float3x3 m, int4 iv4"
        head = f"export function f({sig}) -> float\n{{\n"
        if case["rel"] == "seq":
            out.append(("seq", head + f"  int r = {s1};\n  return r + {s2};\n}}\n"))
            out.append(("seq-write", head + f"  t[0] = {s1};\n  return {s2};\n}}\n"))
        elif case["rel"] == "fns":
            out.append(("fns", f"function g({sig}) -> int\n{{\n  return {s1};\n}}\n" + head + f"  return {s2};\n}}\n"))
        elif case["rel"] == "nested-member":
            out.append(("nested-member", head + f"  return a[{s1}].x + {s2};\n}}\n"))
            out.append(("nested-member-write", head + f"  a[{s1}].y = {s2};\n  return a[0].y;\n}}\n"))
        else:
            out.append(("nested-index", head + f"  return t[{s1} % 3] + m[{s2} % 3][0];\n}}\n"))
    return out


def detail(case):
    k = case["kind"]
    if k == "big":
        return f"big:{case['on']}:{'neg' if case['neg'] else 'pos'}"
    if k == "comp":
        def tag(a):
            return a["s"] + ":" + str(a.get("c", a.get("it", "".join(a.get("m", [])))))
        return f"comp:{case['rel']}:{tag(case['a'])}+{tag(case['b'])}"
    if k == "arr":
        c = case["chain"][case["pos"] - 1]
        return f"arr:{'neg' if c < 0 else 'high' if not case['ok'] else 'in'}:dim{case['pos']}of{len(case['shape'])}"
    if k == "vec":
        return f"vec:{'neg' if case['c'] < 0 else 'high' if not case['ok'] else 'in'}"
    if k == "mat":
        bad = [n for n, v in (("row", case["row"]), ("col", case["col"])) if not 0 <= v < case["size"]]
        return "mat:" + ("+".join(bad) if bad else "in") + (":neg" if min(case["row"], case["col"]) < 0 else "")
    if k == "ityp":
        return f"ityp:{case['it']}:{case['on']}"
    if k == "ibin":
        return f"ibin:{case['l']}{case['op']}{case['r']}:{case['on']}"
    m = case["mask"]
    fam = {("x" in "xyzw" and l in "xyzw") and "p" or (l in "rgba" and "c" or "f") for l in m}
    why = "foreign" if "f" in fam else "mixed" if len(fam) > 1 else ("ok" if case["ok"] else "component-beyond-size")
    return f"mask:{why}:len{len(m)}"


def work(cases):
    out = []
    for case in cases:
        for ctxname, src in render(case):
            st, r, info = common.compile_traced(src, {"optimize": False})
            if not info["hook_ok"]:
                out.append(("HOOK", None, None))
            c2 = dict(case, context=ctxname, source=src)
            if case["ok"] and st != "ok":
                why = info["failed_pass"] or ":".join(str(r).split(":")[:2])
                out.append((f"rejects-valid:{detail(case)}:{ctxname}:{why}", f"valid selection refused ({str(r)[:70]}; failed pass {info['failed_pass']})", c2))
            elif not case["ok"] and st == "ok":
                out.append((f"accepts-invalid:{detail(case)}:{ctxname}", "invalid selection accepted: " + (src.split("\n")[-4 if ctxname != 'global-read' else -3].strip() if case["kind"] != "comp" else " | ".join(l.strip() for l in src.split("\n") if "return" in l or "=" in l)), c2))
            else:
                out.append((None, ("ok-accept" if case["ok"] else "ok-reject:" + (info["failed_pass"] or "crash:" + ":".join(str(r).split(":")[:2]))), None))
    return out


def run(ctx, args):
    quick = ctx.tier == "quick"
    mm = 3 if quick else 4
    res = ctx.tlc("MC_C13", f"CONSTANTS MaxMask = {mm}\nINIT Init\nNEXT Next\nINVARIANT MaskFormulationsAgree\nINVARIANT Report\nCHECK_DEADLOCK FALSE\n", timeout=3000)
    cases = res.records
    nmask = sum(10 ** n for n in range(1, mm + 1)) * 3
    if sum(1 for c in cases if c["kind"] == "mask") != nmask:
        raise common.Machinery(f"expected {nmask} mask cases from TLC")
    jobs = [cases[i:i + 100] for i in range(0, len(cases), 100)]
    with mp.Pool(16) as pool:
        results = pool.map(work, jobs)
    counts = {}
    evals = 0
    for out in results:
        for key, what, case in out:
            if key == "HOOK":
                raise common.Machinery("compiler hook silent")
            evals += 1
            if key is None:
                counts[what] = counts.get(what, 0) + 1
            else:
                ctx.violation(key, what, case)
    if not ctx.violations and (counts.get("ok-accept", 0) == 0 or not any(k.startswith("ok-reject") for k in counts)):
        raise common.Machinery("vacuous run")
    kinds = {}
    for c in cases:
        kinds[c["kind"]] = kinds.get(c["kind"], 0) + 1
    invalid = sum(1 for c in cases if not c["ok"])
    samples = [dict(c, rendered=render(c)[0][1]) for c in (cases[3], cases[len(cases) // 2], cases[-5])]
    return common.finish(
        ctx, level="model_checking", evaluations=evals, distinct_nontrivial=invalid,
        rule=f"TLC enumerates {len(cases)} cases ({kinds}): 39 array shapes x constant -1..4 at every dimension (other indices 0 or extent-1), vector sizes 2-4 and "
             f"float3x3/float4x4 x constants -1..5, 7 index-expression kinds x 3 containers, all masks of length <= {mm} over xyzw/rgba/q/s on vectors of size 2-4; "
             "40 constants beyond 2^32 whose low 32 bits are a valid index; 784 compositions of two selections (14 atoms x 14 atoms x {two statements, two functions, index of a member-selected element, inside index expressions}: accepted exactly if both are valid); "
             "each case rendered in 1-4 contexts (local/global/parameter, read/write), compiled, accept/reject compared. distinct_nontrivial = cases the language rejects.",
        samples=samples, exhaustive=True, traces_validated=evals,
        assumptions=["rejection = Compile returns None or raises", "write contexts for masks only when no letter repeats (the statement does not speak about repeated write masks)",
                     "swizzles on scalars are not enumerated (the statement speaks of swizzles on vectors)"],
        extra={"outcome_counts": counts, "cases_by_kind": kinds})
