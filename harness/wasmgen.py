"""Programs for the WebAssembly checks: (a) a structural family inside the backend's subset
(straight-line functions over int / float parameters: + - * / == < > and constants),
(b) seeded random programs in and just outside that subset, so that "refuse" is exercised.
Programs are ASTs (NslSem's format); values are exactly representable in i32 / f32."""
import random

import nslast as A
from nslast import INT, FLOAT

V, L, B = A.var, A.lit_i, A.bin_
FLIT = [(1, 0), (2, 0), (1, 1), (3, 1), (5, 2), (4, 0)]


class WGen:
    def __init__(self, seed):
        self.r = random.Random(seed)

    def expr(self, params, t, d):
        """expression of static type t (int or float) over the parameters, without implicit conversions"""
        r = self.r
        same = [n for n, pt in params if pt == t]
        if d <= 0 or r.random() < 0.2:
            if same and r.random() < 0.75:
                return V(r.choice(same))
            if t is FLOAT:
                n, e = r.choice(FLIT)
                return A.lit_f(n, e)
            return L(r.choice([0, 1, 2, 3, 5, 64, 100, 127, 128, 1000, -1, -64, -65, 8192]))
        if t is INT and r.random() < 0.3:
            ot = r.choice([INT, FLOAT])
            return B(r.choice(["==", "<", ">"]), self.expr(params, ot, d - 1), self.expr(params, ot, d - 1))
        op = r.choice(["+", "-", "*", "+", "-", "/"])
        if op == "/":
            return B("/", self.expr(params, t, d - 1), L(r.choice([1, 2, 3, 4])) if t is INT else A.lit_f(*r.choice([(2, 0), (4, 0), (1, 1)])))
        if op == "*":
            return B("*", self.expr(params, t, d - 1), L(r.choice([2, 3, -1])) if t is INT else A.lit_f(*r.choice([(2, 0), (1, 1), (3, 1)])))
        return B(op, self.expr(params, t, d - 1), self.expr(params, t, d - 1))

    def function(self, name, nparams=None, exported=True):
        r = self.r
        n = r.randint(0, 6) if nparams is None else nparams
        params = [(f"p{j}", r.choice([INT, FLOAT])) for j in range(n)]
        rt = r.choice([INT, FLOAT])
        return A.func(name, params, rt, A.block([A.ret(self.expr(params, rt, r.randint(1, 4)))]), exported)

    def inside(self):
        """a module of 1-4 exported straight-line functions"""
        return A.prog([], [self.function(f"f{k}") for k in range(self.r.randint(1, 4))])

    def outside(self):
        """one construct the backend cannot translate added to a subset function"""
        r = self.r
        f = self.function("f0", r.randint(1, 3))
        params = [(p["n"], p["t"]) for p in f["params"]]
        kind = r.choice(["local", "mixed", "branch", "call", "global", "assign-param", "loop", "mod", "le"])
        ints = [n for n, t in params if t is INT] or None
        body = f["body"]["ss"]
        x = V(params[0][0])
        if kind == "local":
            body.insert(0, A.decl("t", params[0][1], x))
        elif kind == "mixed":
            body[-1] = A.ret(B("+", x, A.lit_f(1, 1) if params[0][1] is INT else L(1)))
            f["ret"] = FLOAT
        elif kind == "branch":
            body.insert(0, A.if_(B(">", x, L(0) if params[0][1] is INT else A.lit_f(0, 0)), A.block([A.ret(body[-1]["e"])])))
        elif kind == "call":
            g = self.function("g0", 1, exported=False)
            arg = x if g["params"][0]["t"] == params[0][1] else (L(2) if g["params"][0]["t"] is INT else A.lit_f(2, 0))
            body[-1] = A.ret(A.call("g0", [arg]))
            f["ret"] = g["ret"]
            return A.prog([], [g, f]), kind
        elif kind == "global":
            body[-1] = A.ret(B("+", V("g"), L(1)))
            f["ret"] = INT
            return A.prog([("g", INT)], [f]), kind
        elif kind == "assign-param":
            body.insert(0, A.estmt(A.asg(x, B("+", x, x))))
        elif kind == "loop":
            body.insert(0, A.for_(A.decl("i", INT, L(0)), B("<", V("i"), L(2)), A.inc("i"), A.block([])))
        elif kind == "mod":
            body[-1] = A.ret(B("%", L(7), L(3)))
            f["ret"] = INT
        elif kind == "le":
            body[-1] = A.ret(B("<=", x, x))
            f["ret"] = INT
        return A.prog([], [f]), kind

    def value(self, t):
        if t["k"] == "vec":
            return [self.value({"k": t["c"]}) for _ in range(t["n"])]
        if t["k"] == "mat":
            return [[self.value({"k": t["c"]}) for _ in range(t["n"])] for _ in range(t["r"])]
        if t["k"] == "uint":
            # unsigned arguments on both sides of the sign bit
            return self.r.choice([0, 1, 3, 100, 2 ** 31 - 1, 2 ** 31, 4000000000, 2 ** 32 - 1])
        if t is INT or t["k"] == "int":
            return self.r.choice([0, 1, -1, 2, 7, -8, 63, 64, 100, 1000, -1000])
        n, e = self.r.choice(FLIT + [(0, 0), (7, 1), (9, 2)])
        return (n if self.r.random() < 0.8 else -n) / 2 ** e


def structural():
    """deterministic family: numbers of functions, parameters and mixed-type locals, constant magnitude classes"""
    out = []
    for nf in (1, 2, 3, 4):
        for npar in (0, 1, 2, 6):
            fs = []
            for k in range(nf):
                params = [(f"p{j}", INT if (j + k) % 2 == 0 else FLOAT) for j in range(npar)]
                ints = [n for n, t in params if t is INT]
                flts = [n for n, t in params if t is FLOAT]
                # alternate int- and float-typed values so that local groups of different types alternate
                e = L(1)
                for step in range(3):
                    if flts:
                        e = B("+", e, B("<", V(flts[step % len(flts)]), A.lit_f(step + 1, 1)))
                    if ints:
                        e = B("+", e, B("*", V(ints[step % len(ints)]), L([64, 128, -65, 8192, 1000000][(step + k) % 5])))
                fs.append(A.func(f"f{k}", params, INT, A.block([A.ret(e)]), True))
            out.append((f"s{nf}x{npar}", A.prog([], fs)))
    for c in [0, 1, -1, 63, 64, 65, -64, -65, 127, 128, 8191, 8192, -8192, -8193, 1048576, 134217727, 134217728, 1073741823, -1073741824]:
        out.append((f"c{c}", A.prog([], [A.func("f0", [("p0", INT)], INT, A.block([A.ret(B("+", V("p0"), L(c)))]), True)])))
    # unsigned parameters: the unsigned variants of division and comparison
    for op in ("<", ">", "==", "/", "+", "*"):
        for k in range(3):
            out.append((f"u{op}{k}", A.prog([], [A.func("f0", [("p0", A.UINT), ("p1", A.UINT)], INT if op in "<>==" else A.UINT,
                                                        A.block([A.ret(B(op, V("p0"), V("p1")))]), True)])))
    # several return statements in one function: code after a return, returns in both branches, a return inside a loop
    for tn, t, one in (("i", INT, L(1)), ("f", FLOAT, A.lit_f(3, 1))):
        x = V("p0")
        out.append((f"ret2{tn}", A.prog([], [A.func("f0", [("p0", t)], t, A.block([A.ret(B("+", x, one)), A.ret(x)]), True)])))
        out.append((f"ret3{tn}", A.prog([], [A.func("f0", [("p0", t)], t, A.block([A.if_(B(">", x, one), A.block([A.ret(one), A.ret(x)]), A.block([A.ret(x)])), A.ret(B("*", x, one))]), True)])))
        out.append((f"retloop{tn}", A.prog([], [A.func("f0", [("p0", t)], t, A.block([A.decl("i", INT, L(0)), A.while_(B("<", V("i"), L(3)), A.block([A.if_(B(">", x, one), A.block([A.ret(x)])), A.estmt(A.asg(V("i"), B("+", V("i"), L(1))))])), A.ret(one)]), True)])))
    # long sums: body sizes sweep across 128 bytes and the number of locals across 128 (three term shapes shift the sizes by single bytes)
    for k in list(range(18, 34)) + [60, 64, 65, 66, 70]:
        for nm, term in (("p", lambda j: V("p0")), ("c1", lambda j: L(1 + j % 3)), ("c2", lambda j: L(200 + j))):
            e = V("p0")
            for j in range(k):
                e = B("+", e, term(j))
            out.append((f"sum{nm}{k}", A.prog([], [A.func("f0", [("p0", INT)], INT, A.block([A.ret(e)]), True)])))
    # parameters without a name in front of named ones of another type
    out.append(("unnamed1", A.prog([], [A.func("f0", [("unnamed_0", INT), ("b", FLOAT)], FLOAT, A.block([A.ret(B("*", V("b"), V("b")))]), True)])))
    out.append(("unnamed2", A.prog([], [A.func("f0", [("a", FLOAT), ("unnamed_1", INT), ("c", INT)], INT, A.block([A.ret(B("+", V("c"), B("<", V("a"), A.lit_f(1, 1))))]), True)])))
    out.append(("unnamed3", A.prog([], [A.func("f0", [("unnamed_0", FLOAT), ("b", INT)], INT, A.block([A.ret(B("*", V("b"), L(3)))]), True)])))
    # float literals beyond the single-precision range (refused today: the writer cannot encode them).  Literals inside the range and
    # multi-step expressions are left out on purpose: the VM computes in double precision, so an intermediate result may overflow or
    # round differently in single precision - no statement promises more than agreement on exactly representable computations
    for nm, raw in (("over", "1e39"), ("over2", "4e38")):
        lit = {"k": "lit", "t": "float", "raw": raw}
        out.append((f"frange*{nm}", A.prog([], [A.func("f0", [("p0", FLOAT)], FLOAT, A.block([A.ret(B("*", V("p0"), lit))]), True)])))
        out.append((f"frange/{nm}", A.prog([], [A.func("f0", [("p0", FLOAT)], FLOAT, A.block([A.ret(B("/", V("p0"), lit))]), True)])))
    # signed division by powers of two (negative dividends round toward zero)
    for d in (2, 4, 8, 16, 1024):
        out.append((f"divpow{d}", A.prog([], [A.func("f0", [("p0", INT)], INT, A.block([A.ret(B("+", B("/", V("p0"), L(d)), B("/", B("-", V("p0"), L(3)), L(d))))]), True)])))
    # the remainder operator on ints and uints (refused by the backend today; if it is ever translated it has to agree with the VM)
    for t, tn in ((INT, "i"), (A.UINT, "u")):
        out.append((f"mod{tn}", A.prog([], [A.func("f0", [("p0", t), ("p1", t)], t, A.block([A.ret(B("+", B("*", B("%", V("p0"), V("p1")), L(10)), B("/", V("p0"), V("p1"))))]), True)])))
        out.append((f"modlit{tn}", A.prog([], [A.func("f0", [("p0", t)], t, A.block([A.ret(B("%", V("p0"), L(3)))]), True)])))
    # mixed signed / unsigned comparisons and division with the unsigned operand on the left
    for op in ("<", ">", "/", "=="):
        out.append((f"mixu{op}", A.prog([], [A.func("f0", [("p0", A.UINT), ("p1", INT)], INT, A.block([A.ret(B("+", B(op, V("p0"), V("p1")), L(100)))]), True)])))
        out.append((f"mixi{op}", A.prog([], [A.func("f0", [("p0", INT), ("p1", A.UINT)], INT, A.block([A.ret(B("+", B(op, V("p0"), V("p1")), L(100)))]), True)])))
    # one literal value used as an int and, converted, as a float in the same function (constants are shared per function)
    for c in (0, 2, 3, 7, 64):
        pf, pi = V("p0"), V("p1")
        for nm, e in (("cmp", B("+", B("<", pf, L(c)), B("<", pi, L(c)))), ("ari", B("+", B("*", pi, L(c)), B(">", pf, L(c)))), ("rev", B("+", B("<", L(c), pi), B("<", pf, L(c)))),
                      ("flt", B("+", B("+", pf, L(c)), B("<", pi, L(c))))):
            rt = FLOAT if nm == "flt" else INT
            out.append((f"shared{nm}{c}", A.prog([], [A.func("f0", [("p0", FLOAT), ("p1", INT)], rt, A.block([A.ret(e)]), True)])))
    # --- edges of the signature / return / literal handling (added after round 5: four kinds of invalid modules were emitted silently) ---
    # int literals at and beyond the ends of the 32-bit ranges, in int and uint functions
    for c in (2147483647, 2147483648, 4000000000, 4294967295, 4294967296, 1099511627776, -2147483648, -2147483649, -4294967296):
        for t, tn in ((INT, "i"), (A.UINT, "u")):
            for op in ("+", "/", "<"):
                out.append((f"big{tn}{op}{c}", A.prog([], [A.func("f0", [("p0", t)], INT if op == "<" else t, A.block([A.ret(B(op, V("p0"), L(c)))]), True)])))
    # the returned expression has another scalar type than the function declares
    for nm, params, rt, e in (("lit-i-in-f", [("p0", FLOAT)], FLOAT, L(1)), ("par-i-in-f", [("p0", FLOAT), ("p1", INT)], FLOAT, V("p1")),
                              ("sum-i-in-f", [("p0", INT), ("p1", INT)], FLOAT, B("+", V("p0"), V("p1"))), ("cmp-in-f", [("p0", FLOAT)], FLOAT, B("<", V("p0"), A.lit_f(1, 1))),
                              ("par-f-in-i", [("p0", FLOAT)], INT, V("p0")), ("lit-f-in-i", [("p0", INT)], INT, A.lit_f(3, 1)), ("mul-f-in-i", [("p0", FLOAT)], INT, B("*", V("p0"), A.lit_f(2, 0))),
                              ("par-u-in-i", [("p0", A.UINT)], INT, V("p0")), ("par-i-in-u", [("p0", INT)], A.UINT, V("p0")), ("par-u-in-f", [("p0", A.UINT)], FLOAT, V("p0"))):
        out.append((f"retconv:{nm}", A.prog([], [A.func("f0", params, rt, A.block([A.ret(e)]), True)])))
    # functions that can reach their end without a return statement; void functions with and without one
    for tn, t in (("i", INT), ("f", FLOAT), ("u", A.UINT)):
        out.append((f"noret:empty{tn}", A.prog([], [A.func("f0", [("p0", t)], t, A.block([]), True)])))
        out.append((f"noret:expr{tn}", A.prog([], [A.func("f0", [("p0", t)], t, A.block([A.estmt(B("+", V("p0"), V("p0")))]), True)])))
        out.append((f"noret:second{tn}", A.prog([], [A.func("f0", [("p0", t)], t, A.block([A.ret(V("p0"))]), True), A.func("f1", [("p0", t)], t, A.block([A.estmt(B("*", V("p0"), V("p0")))]), True)])))
        out.append((f"void:empty{tn}", A.prog([], [A.func("f0", [("p0", t)], A.VOID, A.block([]), True)])))
        out.append((f"void:expr{tn}", A.prog([], [A.func("f0", [("p0", t)], A.VOID, A.block([A.estmt(B("+", V("p0"), V("p0")))]), True)])))
        out.append((f"void:ret{tn}", A.prog([], [A.func("f0", [("p0", t)], A.VOID, A.block([A.ret()]), True), A.func("f1", [("p0", t)], t, A.block([A.ret(V("p0"))]), True)])))
    # vector / matrix types in a signature (next to a scalar function that can be translated)
    for nm, vt in (("float2", A.vec("float", 2)), ("float4", A.vec("float", 4)), ("int3", A.vec("int", 3)), ("float3x3", A.mat("float", 3, 3))):
        ok = A.func("f1", [("p0", FLOAT)], FLOAT, A.block([A.ret(B("+", V("p0"), V("p0")))]), True)
        out.append((f"sig:param-{nm}", A.prog([], [A.func("f0", [("p0", vt), ("p1", FLOAT)], FLOAT, A.block([A.ret(V("p1"))]), True), ok])))
        out.append((f"sig:param-only-{nm}", A.prog([], [A.func("f0", [("p0", vt)], INT, A.block([A.ret(L(1))]), True)])))
        out.append((f"sig:ret-{nm}", A.prog([], [ok, A.func("f0", [("p0", vt)], vt, A.block([A.ret(V("p0"))]), True)])))
    # a function that is NOT exported and not called next to an exported one: a helper the backend cannot translate must not leave a
    # half-registered function behind (declared, exported or typed, but without a body)
    for nm, body in (("plain", [A.ret(B("*", V("p0"), L(3)))]), ("local", [A.decl("t", INT, V("p0")), A.ret(V("t"))]),
                     ("branch", [A.if_(B(">", V("p0"), L(0)), A.block([A.ret(L(1))])), A.ret(L(2))]),
                     ("loop", [A.decl("i", INT, L(0)), A.while_(B("<", V("i"), V("p0")), A.block([A.estmt(A.asg(V("i"), B("+", V("i"), L(1))))])), A.ret(V("i"))]),
                     ("cast", [A.ret(B("*", V("p0"), A.cons(INT, [A.lit_f(5, 1)])))])):
        helper = A.func("h0", [("p0", INT)], INT, A.block(body), False)
        okf = A.func("f0", [("p0", INT)], INT, A.block([A.ret(B("+", V("p0"), L(1)))]), True)
        okg = A.func("f1", [("p0", FLOAT)], FLOAT, A.block([A.ret(B("*", V("p0"), V("p0")))]), True)
        out.append((f"helper-first:{nm}", A.prog([], [helper, okf])))
        out.append((f"helper-last:{nm}", A.prog([], [okf, helper])))
        out.append((f"helper-mid:{nm}", A.prog([], [okf, helper, okg])))
    for n, e in [(0, 0), (1, 0), (1, 1), (3, 2), (255, 3), (1, 10), (16777215, 0)]:
        out.append((f"fc{n}_{e}", A.prog([], [A.func("f0", [("p0", FLOAT)], FLOAT, A.block([A.ret(B("+", V("p0"), A.lit_f(n, e)))]), True)])))
    return out
