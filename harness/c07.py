"""C07 - every emitted WebAssembly binary is well-formed and valid.

Binding (B): every module the real compiler emits without reporting an error - for a
structural family (1-4 functions, 0-6 parameters, values of alternating int/float type so
that local groups alternate, every constant magnitude class), for seeded programs inside the
backend's straight-line subset and for programs with one construct outside it - is read to
the end by spec/WasmBinary.tla in TLC: preamble, known sections in ascending order with
exact sizes, one body per declared function, indices in range, exports naming existing
functions, every body type-checked against its signature.  The verdict is the first failing
reader action.  wasmtime validates the same bytes as an independent second opinion: a
disagreement between the two is a machinery failure, not a verdict.
"""
import multiprocessing as mp

import common
import nslast as A
import wasmgen
import wasmlib


def programs(ctx, n):
    out = [(f"struct:{i}", p, "inside") for i, p in wasmgen.structural()]
    for i in range(n):
        g = wasmgen.WGen(ctx.seed * 1000003 + i)
        if i % 3 == 2:
            p, kind = g.outside()
            out.append((f"out:{i}", p, "outside:" + kind))
        else:
            out.append((f"in:{i}", g.inside(), "inside"))
    return out


def work(items):
    out = []
    for ident, prog, cls in items:
        src = A.pp(prog)
        for opt in (False, True):
            st, b, _ = wasmlib.compile_wasm(src, {"optimize": opt})
            out.append({"id": f"{ident}/{'O1' if opt else 'O0'}", "cls": cls, "src": src, "st": st, "bytes": list(b) if st == "ok" else None, "why": None if st == "ok" else b})
    # one Compiler object used for several compilations in a row: every module it emits has to be valid on its own
    import io
    from nsl import Compiler
    from common import quiet
    shared = Compiler.Compiler()
    base = abs(hash(items[0][0])) % 1000
    for k in range(4):
        # distinct function names per program (an export name used twice by one Compiler object is refused on this code base)
        n = f"{base}_{k}"
        src = (f"export function e{n}(int a, int b) -> int\n{{\n  return a * {k + 2} + b;\n}}\n" if k % 2 == 0 else
               f"export function e{n}(float a, float b) -> float\n{{\n  float c = a * {k}.5;\n  return c + b;\n}}\nexport function d{n}(int a) -> int\n{{\n  return a + {k};\n}}\n")
        st, b = "refused", "reused compiler"
        try:
            with quiet():
                r = shared.Compile(src, {"wasm": True})
                if r is not None and r.WasmModule is not None:
                    buf = io.BytesIO()
                    r.WasmModule.WriteTo(buf)
                    st, b = "ok", buf.getvalue()
        except SystemExit:
            pass
        except BaseException as e:  # noqa
            b = f"raise:{type(e).__name__}"
        out.append({"id": f"{items[0][0]}/reused-compiler-{k}", "cls": "inside:reused-compiler", "src": src, "st": st, "bytes": list(b) if st == "ok" else None, "why": None if st == "ok" else b})
    return out


def run(ctx, args):
    n = 300 if ctx.tier == "quick" else 5000
    progs = programs(ctx, n)
    with mp.Pool(16) as pool:
        recs = [r for part in pool.map(work, [progs[i:i + 30] for i in range(0, len(progs), 30)]) for r in part]
    emitted = [r for r in recs if r["st"] == "ok"]
    verdict = wasmlib.run_wasmbinary(ctx, [{"id": r["id"], "bytes": r["bytes"], "calls": []} for r in emitted])
    counts = {}
    multi = 0
    for r in recs:
        if r["st"] != "ok":
            counts["refused:" + r["cls"]] = counts.get("refused:" + r["cls"], 0) + 1
            continue
        v = verdict[r["id"]]
        wt = wasmlib.wasmtime_check(bytes(r["bytes"]))
        if v["status"] == "unmodelled":
            counts["unmodelled"] = counts.get("unmodelled", 0) + 1
            if not wt["valid"]:
                ctx.violation("invalid-by-wasmtime:" + wt["why"][:50], f"emitted module is outside WasmBinary's subset and wasmtime rejects it: {wt['why']}", {"source": r["src"], "id": r["id"]})
            continue
        if (v["status"] == "valid") != wt["valid"]:
            raise common.Machinery(f"WasmBinary says {v['status']} ({v['why']}) but wasmtime says valid={wt['valid']} ({wt['why']}) for {r['id']}:\n{r['src']}")
        if v["status"] != "valid":
            ctx.violation("invalid:" + v["why"][:70], f"the compiler emitted a module without an error, but it is not a valid binary: {v['why']} (wasmtime: {wt['why'][:80]})",
                          {"source": r["src"], "id": r["id"], "class": r["cls"], "bytes_hex": bytes(r["bytes"]).hex(" ")})
            continue
        counts["valid:" + r["cls"].split(":")[0]] = counts.get("valid:" + r["cls"].split(":")[0], 0) + 1
        if v["nfuncs"] > 1 or any(l > 1 for l in v["locals"]):
            multi += 1
    if not any(k.startswith("valid") for k in counts) and not ctx.violations:
        raise common.Machinery("vacuous run: no module was emitted")
    samples = [{"source": r["src"], "bytes_hex": bytes(r["bytes"]).hex(" ")[:200], "sections": verdict[r["id"]]["sections"]} for r in emitted[3::max(1, len(emitted) // 3)][:3]]
    return common.finish(
        ctx, level="model_checking", evaluations=len(recs), distinct_nontrivial=multi,
        rule=f"{len(wasmgen.structural())} structural programs + {n} seeded programs (2/3 inside the backend's straight-line subset, 1/3 with one construct outside it), each compiled "
             f"with the wasm option at both optimisation levels: {len(emitted)} emitted modules read completely by WasmBinary in TLC (sections, sizes, indices, exports, body type-checking) "
             "and cross-checked with wasmtime's validator; in every batch four programs with distinct function names are also compiled one after the other by ONE Compiler object. distinct_nontrivial = emitted modules with more than one function or more than one local.",
        samples=samples or [{"note": "nothing emitted"}], traces_validated=len(emitted),
        assumptions=["a module is judged only when the compiler reported no error", "sections / opcodes outside WasmBinary's subset are judged by wasmtime alone (counted as 'unmodelled')"],
        extra={"outcome_counts": counts})
