"""C05 - accepted programs do not go wrong.

Trace validation: programs over the whole spellable language - every binary operator on
every pair of spellable types (the cases of MC_C09), a catalogue of probe programs for every
construct including the odd corners, and seeded programs with every feature of the
generator - are compiled at both optimisation levels with the verification hooks on.  The
recorded events (pipeline stages, every pass with its outcome, the result, linking, every
invocation with its outcome) form one trace per compilation, which spec/Pipeline.tla
consumes in TLC: passes in order, nothing after a failed pass, optimisation passes iff
optimisation is on, a module iff the pipeline finished, and after an accepted compilation
only the defined failures - division by zero, a dynamic index outside its container.  Any
other failure is an internal error, identified by (stage, exception class, innermost
function of nsl/, opcode).
"""
import copy
import json
import multiprocessing as mp
import sys

import common
import nslast as A
import nslgen
import vmtrace
from c05_templates import TEMPLATES

DIV_OPS = {"DIV", "MOD", "VECTOR_DIV", "VECTOR_DIV_SCALAR", "VECTOR_MOD"}
IDX_OPS = {"LOAD_ARRAY", "STORE_ARRAY", "VECTOR_GET", "VECTOR_SET", "MATRIX_GET", "MATRIX_SET"}


def value_for(t, L, k):
    """a value of IR type t (variation k)"""
    if isinstance(t, L.IntegerType):
        return (2 + k) if t.Unsigned else [3, -2, 1][k % 3]
    if isinstance(t, L.FloatType):
        return [1.5, -0.5, 2.0][k % 3]
    if isinstance(t, L.VectorType):
        return [value_for(t.ElementType, L, k + j) for j in range(t.Size)]
    if isinstance(t, L.MatrixType):
        return [[value_for(t.ElementType, L, k + i + j) for j in range(t.ColumnCount)] for i in range(t.RowCount)]
    if isinstance(t, L.ArrayType):
        def mk(dims, kk):
            return [value_for(t.ElementType, L, kk + j) if len(dims) == 1 else mk(dims[1:], kk + j) for j in range(dims[0])]
        return mk(list(t.Size), k)
    if isinstance(t, L.StructureType):
        return {n: value_for(ft, L, k + j) for j, (n, ft) in enumerate(t.Fields.items())}
    return None


RANGE_MESSAGES = {"int too large to convert to float": "huge-int-meets-float", "integer division result too large for a float": "huge-int-meets-float",
                  "cannot convert float infinity to integer": "infinity-to-int", "cannot convert float NaN to integer": "nan-to-int"}


def run_key(obs):
    """(exception class, innermost nsl function, opcode) - except for the Python exceptions that a number outside every machine range
    raises wherever it meets an operation: those are one finding per message, whatever instruction happens to touch the value first"""
    if obs.get("exc") in ("OverflowError", "ValueError") and obs.get("msg") in RANGE_MESSAGES:
        return f"numeric-range:{RANGE_MESSAGES[obs['msg']]}"
    return f"{obs.get('exc')}:{obs.get('where')}:{obs.get('last_op')}"


def classify(obs):
    """-> (r, what): r in ok | divzero | oob | budget | internal"""
    if obs["ok"]:
        return "ok", ""
    if obs.get("fuel"):
        return "budget", ""
    op = obs.get("last_op")
    if obs["exc"] == "ZeroDivisionError" and op in DIV_OPS:
        return "divzero", ""
    if obs["exc"] == "IndexError" and op in IDX_OPS:
        return "oob", ""
    return "internal", f"{obs['exc']} in {obs['where']} at {op}: {obs['msg']}"[:150]


def work(items):
    from nsl import LinearIR as L
    from nsl.passes import LowerToIR
    out = []
    for ident, src in items:
        for opt in (False, True):
            try:
                with common.time_limit(120):
                    st, r, info = common.compile_traced(src, {"optimize": opt})
            except common.CaseTimeout:
                out.append({"id": f"{ident}/{'O1' if opt else 'O0'}", "src": src, "events": [], "timeout": True})
                continue
            ev = []
            began = None
            for e in info["events"]:
                if e[0] == "stage":
                    ev.append({"e": "stage", "s": e[1], "opt": bool(e[2]) if len(e) > 2 else False})
                elif e[0] == "pass-begin":
                    began = e
                elif e[0] in ("pass-ok", "pass-fail", "pass-skip"):
                    ev.append({"e": "pass", "kind": e[1], "i": e[2], "name": e[3], "r": e[0][5:]})
                    began = None
            if began is not None:        # a pass began and never reported back: it raised
                ev.append({"e": "pass", "kind": began[1], "i": began[2], "name": began[3], "r": "crash"})
            ev.append({"e": "result", "r": "module" if st == "ok" else "none", "what": "" if st == "ok" else str(r)[:100]})
            rec = {"id": f"{ident}/{'O1' if opt else 'O0'}", "src": src, "events": ev, "accepted": st == "ok", "why": None if st == "ok" else str(r)[:100],
                   "hook_ok": info["hook_ok"], "runs": []}
            if st == "ok":
                try:
                    program = A.link(r)
                    ev.append({"e": "link", "r": "ok", "what": ""})
                except BaseException as e:  # noqa
                    ev.append({"e": "link", "r": "raise", "what": f"{type(e).__name__} in {A.innermost_nsl_frame(sys.exc_info()[2])}"})
                    out.append(rec)
                    continue
                gl = {}
                try:
                    for n, t in r.IRModule.Globals.items():
                        gl[n] = LowerToIR._CreateLinearIRType(t)
                except BaseException:  # noqa
                    gl = {}
                for fname, f in r.IRModule.Functions.items():
                    if fname.startswith("@"):
                        continue
                    for k in range(2):
                        args = {n: value_for(t, L, k) for n, t in f.Type.Arguments.items()}
                        g0 = {n: value_for(t, L, k + 1) for n, t in gl.items()}
                        obs = vmtrace.run_traced(program, fname, args, g0, budget=100000)
                        cr, what = classify(obs)
                        ev.append({"e": "run", "r": cr, "what": what, "fn": fname})
                        rec["runs"].append({"fn": fname, "args": A.show_py(args), "globals": A.show_py(g0), "r": cr, "what": what,
                                            "key": run_key(obs) if cr == "internal" else ""})
            out.append(rec)
    return out


def run(ctx, args):
    quick = ctx.tier == "quick"
    # (a) every operator on every pair of spellable types: the cases and result types come from the rule table in TLC
    res = ctx.tlc("MC_C09", "INIT Init\nNEXT Next\nINVARIANT Report\nCHECK_DEADLOCK FALSE\n")
    items = []
    for row in res.records:
        for cell in row["cells"]:
            if cell["spell"]:
                T = cell["res"] if cell["ok"] else "float"
                items.append((f"binop:{row['L']}{row['op']}{cell['R']}", f"export function f({row['L']} a, {cell['R']} b) -> {T}\n{{\n  return a {row['op']} b;\n}}\n"))
    nbin = len(items)
    # (b) the probe catalogue
    items += [("probe:" + n, s) for n, s in TEMPLATES]
    # (c) seeded programs with every feature of the generator
    n = 200 if quick else 4000
    feats = [dict(vectors=True, uint=True), dict(vectors=True, uint=True, structs=True, arrays=True, maxstmts=8, depth=2), dict(vectors=False, uint=True, calls=True)]
    for i in range(n):
        g = nslgen.Gen(ctx.seed * 1000003 + i, feats[i % 3])
        items.append((f"gen:{i}", A.pp(g.program())))
    # (d) the optimiser small-scope family (both levels are compiled: an IR pass must not fail on an accepted program)
    import optfamily
    items += [("opt:" + name, A.pp(prog)) for name, prog in (optfamily.quick_family(ctx.seed) if quick else optfamily.programs(3))]
    with mp.Pool(16) as pool:
        recs = [r for part in pool.map(work, [items[i:i + 40] for i in range(0, len(items), 40)]) for r in part]
    if any(r.get("hook_ok") is False for r in recs):
        raise common.Machinery("compiler hook silent (NSL_VERIF hook missing from the tree under test?)")
    for r in recs:
        if r.get("timeout"):
            ctx.violation("compile-timeout", "compilation did not finish in 120 s", {"source": r["src"], "id": r["id"]})
    recs = [r for r in recs if not r.get("timeout")]
    verdicts = {}
    for lo in range(0, len(recs), 3000):
        path = ctx.tmp("pipeline-traces.json")
        path.write_text(json.dumps([{"id": r["id"], "events": r["events"]} for r in recs[lo:lo + 3000]]))
        rr = ctx.tlc("Pipeline", "INIT Init\nNEXT Next\nINVARIANT Report\nPROPERTY RejectedIsFinal\nCHECK_DEADLOCK FALSE\n", env={"BATCH": str(path)}, timeout=3000)
        for v in rr.records:
            verdicts[v["id"]] = v
    missing = [r["id"] for r in recs if r["id"] not in verdicts]
    if missing:
        raise common.Machinery(f"Pipeline gave no verdict for {len(missing)} traces, e.g. {missing[:2]}")
    counts = {}
    accepted = 0
    for r in recs:
        v = verdicts[r["id"]]
        kind = r["id"].split(":")[0]
        if r["accepted"]:
            accepted += 1
        if v["verdict"] == "conforms":
            counts[("accepted-clean:" if r["accepted"] else "rejected:") + kind] = counts.get(("accepted-clean:" if r["accepted"] else "rejected:") + kind, 0) + 1
            for run_ in r["runs"]:
                if run_["r"] in ("divzero", "oob"):
                    counts["defined-failure:" + run_["r"]] = counts.get("defined-failure:" + run_["r"], 0) + 1
            continue
        bad = r["events"][v["at"] - 1] if 0 < v["at"] <= len(r["events"]) else {}
        case = {"id": r["id"], "source": r["src"], "verdict": v["verdict"], "event": bad, "trace_tail": r["events"][-4:]}
        if bad.get("e") == "run":
            run_ = [x for x in r["runs"] if x["r"] == "internal"][0]
            case["invocation"] = {k: run_[k] for k in ("fn", "args", "globals")}
            ctx.violation(f"internal-error:run:{run_['key']}", f"{r['id']}: the compiler accepted the program, the VM fails with an internal error: {run_['what']}", case)
        elif bad.get("e") == "link":
            ctx.violation(f"internal-error:link:{bad.get('what')}", f"{r['id']}: linking an accepted module fails: {bad.get('what')}", case)
        elif v["verdict"].startswith("internal error") or "no module was returned" in v["verdict"]:
            short = v["verdict"].split(": ")[0][:70] + ":" + ":".join((r.get("why") or "").split(":")[:2])
            ctx.violation(f"pipeline:{short}", f"{r['id']}: {v['verdict']}", case)
        else:
            # the order and the set of passes are how Pipeline.tla tells a rejection from an internal error; a trace that breaks those
            # structural rules without any failure is a divergence between the specification and the compiler driver, not something
            # the statement forbids: a note
            counts["diverging:" + v["verdict"][:60]] = counts.get("diverging:" + v["verdict"][:60], 0) + 1
            if sum(n_ for k_, n_ in counts.items() if k_.startswith("diverging:")) <= 3:
                msg = f"CONFORMANCE-NOTE (not a verdict on the listed property): {r['id']}: the compiler's event trace is not a behaviour of spec/Pipeline.tla: {v['verdict']} (event {bad})"
                print(msg[:500])
                ctx.notes.append(msg[:500])
    if accepted == 0:
        raise common.Machinery("vacuous run: nothing accepted")
    samples = [{"id": r["id"], "source": r["src"], "events": [f"{e['e']}:{e.get('s', e.get('name', e.get('r')))}" for e in r["events"]][-8:]} for r in recs[nbin * 2 + 6::max(1, len(recs) // 4)][:3]]
    return common.finish(
        ctx, level="model_checking", evaluations=len(recs), distinct_nontrivial=accepted,
        rule=f"{nbin} operator x type x type programs (all 13 x 14 x 14 spellable combinations), {len(TEMPLATES)} probe programs (one per construct, odd corners included), {n} seeded programs "
             f"with every generator feature, the optimiser small-scope family (length <= 3); each compiled at both optimisation levels with the hooks on ({len(recs)} traces), accepted ones linked and every exported function invoked on "
             "2 type-correct inputs with the VM tracer; every trace consumed by Pipeline.tla in TLC. distinct_nontrivial = compilations that were accepted (and therefore linked and run).",
        samples=samples, traces_validated=len(recs),
        assumptions=["defined failures: ZeroDivisionError raised at a division/modulo instruction; IndexError raised at an array/vector/matrix access instruction",
                     "a run that exceeds the step budget is not judged"],
        extra={"outcome_counts": counts, "accepted_compilations": accepted})


def selftest(ctx, args):
    """Negative controls for the Pipeline trace binding: real traces of a few accepted programs conform; the same traces with a
    required pass removed, a pass reported as failed but a module returned, a run outcome turned into an internal error, or the
    hook silent are rejected at the manipulated event."""
    import copy
    srcs = [("s1", "export function f(int a, int b) -> int\n{\n  int c = a * 3 + b;\n  return c - a / 2;\n}\n"),
            ("s2", "int g;\nexport function f(int n) -> int\n{\n  for (int i = 0; i < n; ++i)\n  {\n    g += i;\n  }\n  return g;\n}\n")]
    recs = work(srcs)
    traces = []
    expect = {}
    for r in recs:
        ev = r["events"]
        traces.append({"id": r["id"] + "|original", "events": ev})
        expect[r["id"] + "|original"] = None
        k = next(i for i, e in enumerate(ev) if e["e"] == "pass" and e["name"] == "ComputeTypesPass")
        traces.append({"id": r["id"] + "|required-pass-removed", "events": ev[:k] + ev[k + 1:]})
        e2 = copy.deepcopy(ev)
        e2[k]["r"] = "fail"
        traces.append({"id": r["id"] + "|failed-pass-but-module", "events": e2})
        e3 = copy.deepcopy(ev)
        j = next(i for i, e in enumerate(e3) if e["e"] == "run")
        e3[j]["r"] = "internal"
        e3[j]["what"] = "KeyError in VM.py:__Execute at LOAD"
        traces.append({"id": r["id"] + "|run-internal-error", "events": e3})
        traces.append({"id": r["id"] + "|hook-silent", "events": [e for e in ev if e["e"] not in ("pass", "stage")]})
    path = ctx.tmp("pipeline-selftest.json")
    path.write_text(json.dumps(traces))
    rr = ctx.tlc("Pipeline", "INIT Init\nNEXT Next\nINVARIANT Report\nPROPERTY RejectedIsFinal\nCHECK_DEADLOCK FALSE\n", env={"BATCH": str(path)}, timeout=600)
    bad = 0
    summary = {}
    for v in rr.records:
        name = v["id"].split("|")[1]
        ok = (v["verdict"] == "conforms") == (name == "original")
        summary[name + (":ok" if ok else ":WRONG")] = summary.get(name + (":ok" if ok else ":WRONG"), 0) + 1
        if not ok:
            bad += 1
            print(f"SELFTEST-FAILED {v['id']}: verdict {v['verdict']}")
    print("selftest C05 (Pipeline trace binding):", json.dumps(summary, sort_keys=True))
    return 0 if bad == 0 and len(rr.records) == len(traces) else 2
