"""C08 - binary operators group by the declared precedence, left to right.

Binding (A): TLC enumerates every ordered pair / triple of the 13 operators with every
single parenthesis group, runs the NslParse shift/reduce machine on it (checking the
machine against the recursive definition and the precedence law) and prints the tree and
the value under six operand assignments.  This driver renders every case in several
layouts and five syntactic contexts, parses it with the real parser, compiles and runs it
on the real VM and compares tree shape and value.
"""
import multiprocessing as mp
import random

import common
from common import quiet, time_limit, CaseTimeout

ENVS = [dict(a=7, b=3, c=2, d=5), dict(a=1, b=0, c=1, d=2), dict(a=2, b=5, c=3, d=1),
        dict(a=0, b=1, c=0, d=1), dict(a=9, b=4, c=4, d=3), dict(a=3, b=3, c=1, d=0)]

SEPS = [" ", "", "\n", "\t", "  \n\t ", None]   # None = random per gap

CONTEXTS = ["ret", "asg", "decl", "cond", "arg", "c+", "c-", "c*", "c/"]


def render_expr(toks, layout, rnd):
    sep = SEPS[layout]
    out = []
    for i, t in enumerate(toks):
        if i:
            out.append(sep if sep is not None else rnd.choice([" ", "", "\n", "\t", "  ", "\n\n", " \n "]))
        out.append(t)
    return "".join(out)


def program(ctxname, expr):
    head = "export function f(int a, int b, int c, int d) -> int\n{\n"
    if ctxname == "ret":
        return head + "  return " + expr + ";\n}\n"
    if ctxname == "asg":
        return head + "  int r = 0;\n  r = " + expr + ";\n  return r;\n}\n"
    if ctxname[0] == "c" and len(ctxname) == 2:
        return head + "  int r = 100;\n  r " + ctxname[1] + "= " + expr + ";\n  return r;\n}\n"
    if ctxname == "decl":
        return head + "  int r = " + expr + ";\n  return r;\n}\n"
    if ctxname == "cond":
        return head + "  int r = 7;\n  if (" + expr + ") { r = 1; } else { r = 0; }\n  return r;\n}\n"
    if ctxname == "arg":
        return "function id(int x) -> int { return x; }\n" + head + "  return id(" + expr + ");\n}\n"
    raise ValueError(ctxname)


def find_expr(module, ctxname):
    """Locate the expression under test in the parsed module (public getters only)."""
    from nsl import ast
    f = [x for x in module.GetFunctions() if x.GetName() == "f"][0]
    stmts = f.GetBody().GetStatements()
    if ctxname == "ret":
        return stmts[0].GetExpression()
    if ctxname == "asg" or (ctxname[0] == "c" and len(ctxname) == 2):
        return stmts[1].GetExpression().GetRight()
    if ctxname == "decl":
        return stmts[0].GetDeclarations()[0].GetInitializerExpression()
    if ctxname == "cond":
        return stmts[1].GetCondition()
    if ctxname == "arg":
        return stmts[0].GetExpression().GetArguments()[0]


def project(e):
    from nsl import ast, op
    if isinstance(e, ast.AssignmentExpression):
        return {"k": "asg"}
    if isinstance(e, ast.BinaryExpression):
        return {"k": "bin", "o": op.OpToStr(e.GetOperation()), "l": project(e.GetLeft()), "r": project(e.GetRight())}
    if isinstance(e, ast.PrimaryExpression):
        return {"k": "leaf", "x": e.GetName()}
    return {"k": "other", "cls": type(e).__name__}


def strip(t):
    if t["k"] == "leaf":
        return {"k": "leaf", "x": t["x"]}
    return {"k": "bin", "o": t["o"], "l": strip(t["l"]), "r": strip(t["r"])}


def show(t):
    if t["k"] == "leaf":
        return t["x"]
    if t["k"] == "bin":
        return "(" + show(t["l"]) + " " + t["o"] + " " + show(t["r"]) + ")"
    return "<" + t["k"] + ">"


def one(p, rec, exp_tree, ctxname, layout, rnd, run_vm, limit, out):
    expr = render_expr(rec["toks"], layout, rnd)
    src = program(ctxname, expr)
    case = {"ops": rec["ops"], "span": rec["span"], "ctx": ctxname, "layout": layout, "source": src}
    mark = len(out)
    try:
        with time_limit(limit):
            try:
                with quiet():
                    mod = p.Parse(src)
                got = project(find_expr(mod, ctxname))
            except SystemExit:
                out.append(("reject", "parser refused the program", case))
                return
            if got != exp_tree:
                case["expected_tree"] = show(exp_tree)
                case["parsed_tree"] = show(got)
                out.append(("tree-shape", f"`{' '.join(rec['toks'])}` parsed as {show(got)}, language says {show(exp_tree)}", case))
            out.append(("parsed", None, None))
            if not run_vm:
                return
            st, r = common.compile_source(src)
            if st != "ok":
                out.append(("reject", f"compiler refused the program ({r})", case))
                return
            vm = common.link_vm(r)
            for env, ev0, cv in zip(ENVS, rec["vals"], rec["cvals"]):
                ev = cv[ctxname[1]] if (ctxname[0] == "c" and len(ctxname) == 2) else ev0
                if ev["t"] != "int":
                    continue            # division by zero etc.: outside the stated domain
                want = ev["v"]
                if ctxname == "cond":
                    want = 1 if want != 0 else 0
                try:
                    with quiet():
                        gotv = vm.Invoke("f", **env)
                except CaseTimeout:
                    raise
                except BaseException as e:  # noqa
                    out.append(("vm-error", f"VM failed with {type(e).__name__} on a well-defined expression", dict(case, env=env)))
                    break
                if not (isinstance(gotv, (int, float)) and gotv == want):
                    out.append(("value", f"`{' '.join(rec['toks'])}` with {env} = {gotv!r}, language says {want}", dict(case, env=env, got=repr(gotv), want=want)))
                    break
            out.append(("ran", None, None))
    except CaseTimeout:
        del out[mark:]
        if limit < 100:
            # a straight-line program cannot loop: assume machine load and retry once with a generous limit
            one(p, rec, exp_tree, ctxname, layout, rnd, run_vm, 300, out)
        else:
            out.append(("timeout", "case did not finish in 300 s", case))


def tdiv(x, y):
    q = abs(x) // abs(y)
    return -q if (x < 0) != (y < 0) else q


def ev_tree(t, env):
    """value of the tree TLC printed, for * and / on integers (None: division by zero)"""
    if t["k"] == "leaf":
        return env[t["x"]]
    l, r = ev_tree(t["l"], env), ev_tree(t["r"], env)
    if l is None or r is None:
        return None
    if t["o"] == "*":
        return l * r
    return None if r == 0 else tdiv(l, r)


def under_right_of_div(t, name, flag=False):
    if t["k"] == "leaf":
        return flag and t["x"] == name
    return under_right_of_div(t["l"], name, flag) or under_right_of_div(t["r"], name, flag or t["o"] == "/")


def extras(rec, exp_tree, out):
    """The same token sequence (a) with literal operands, compiled at both optimisation levels - the grouping must survive
    constant folding - and (b) for * and / with an integer vector as one operand: the grouping holds component-wise."""
    toks = rec["toks"]
    env0 = ENVS[0]
    ev0 = rec["vals"][0]
    if ev0["t"] == "int":
        lit = " ".join(str(env0[t]) if t in ("b", "c", "d") else t for t in toks)
        for ctxname in ("ret", "c-"):
            src = program(ctxname, lit)
            want = rec["cvals"][0]["-"] if ctxname == "c-" else ev0
            if want["t"] != "int":
                continue
            for opt in (False, True):
                case = {"ops": rec["ops"], "span": rec["span"], "ctx": ctxname + "/literals", "optimize": opt, "source": src}
                try:
                    with time_limit(300):
                        st, r = common.compile_source(src, {"optimize": opt})
                        if st != "ok":
                            out.append(("reject", f"compiler refused the program ({r})", case))
                            continue
                        with quiet():
                            gotv = common.link_vm(r).Invoke("f", **env0)
                except CaseTimeout:
                    out.append(("timeout", "case did not finish in 300 s", case))
                    continue
                except BaseException as e:  # noqa
                    out.append(("vm-error", f"VM failed with {type(e).__name__} on a well-defined expression", case))
                    continue
                if not (isinstance(gotv, (int, float)) and gotv == want["v"]):
                    out.append(("value-literals", f"`{lit}` with a = {env0['a']} (optimize={opt}) = {gotv!r}, language says {want['v']}", dict(case, got=repr(gotv), want=want["v"])))
                out.append(("ran", None, None))
    if set(rec["ops"]) <= {"*", "/"}:
        names = ["a", "b", "c", "d"][:len(rec["ops"]) + 1]
        for vn in names[:2]:
            if under_right_of_div(exp_tree, vn):
                continue
            sig = ", ".join(("int4 " if n == vn else "int ") + n for n in ["a", "b", "c", "d"])
            src = f"export function f({sig}) -> int4\n{{\n  return {' '.join(toks)};\n}}\n"
            case = {"ops": rec["ops"], "span": rec["span"], "ctx": "ret/int4 " + vn, "source": src}
            for env in ENVS[:3]:
                vec = [env[vn], env[vn] + 1, 9, 11]
                want = [ev_tree(exp_tree, dict(env, **{vn: x})) for x in vec]
                if any(w is None for w in want):
                    continue
                try:
                    with time_limit(300):
                        st, r = common.compile_source(src)
                        if st != "ok":
                            out.append(("reject-vector", f"compiler refused the program ({r})", case))
                            break
                        with quiet():
                            gotv = common.link_vm(r).Invoke("f", **dict(env, **{vn: vec}))
                except CaseTimeout:
                    out.append(("timeout", "case did not finish in 300 s", case))
                    break
                except BaseException as e:  # noqa
                    out.append(("vm-error-vector", f"VM failed with {type(e).__name__} on a well-defined expression", dict(case, env=env)))
                    break
                if not (isinstance(gotv, list) and len(gotv) == 4 and all(isinstance(g, (int, float)) and g == w for g, w in zip(gotv, want))):
                    out.append(("value-vector", f"`{' '.join(toks)}` with {vn} = {vec}, {env} = {gotv!r}, language says {want}", dict(case, env=env, got=repr(gotv), want=want)))
                    break
                out.append(("ran", None, None))


def matrix_chain():
    """a * b * v with two matrices and a vector: the chain is (a * b) * v, i.e. exactly what `float3x3 m = a * b; return m * v;`
    computes - the same operations in the same order, so the VM must return identical values (also for inexact operands); and
    parentheses on the right are honoured: a * (b * v) equals `float3 w = b * v; return a * w;`."""
    import copy
    out = []
    head = "export function f(float3x3 a, float3x3 b, float3 v) -> float3\n{\n"
    progs = {"a * b * v": head + "  return a * b * v;\n}\n", "(a * b) * v": head + "  return (a * b) * v;\n}\n",
             "left-reference": head + "  float3x3 m = a * b;\n  return m * v;\n}\n",
             "a * (b * v)": head + "  return a * (b * v);\n}\n", "right-reference": head + "  float3 w = b * v;\n  return a * w;\n}\n",
             "a * b * 2.5 * v": head + "  return a * b * 2.5 * v;\n}\n", "scaled-reference": head + "  float3x3 m = a * b;\n  float3x3 k = m * 2.5;\n  return k * v;\n}\n"}
    inputs = [{"a": [[0.1, 0.2, 0.3], [1.0 / 3, 0.7, -0.9], [1e-3, 5.5, 2.0 / 7]], "b": [[0.6, -0.1, 1.0 / 9], [0.25, 0.35, 0.45], [7.7, -3.3, 0.01]], "v": [0.3, -0.7, 1.1]},
              {"a": [[1e150, 0.0, 0.0], [0.0, 1e150, 0.0], [0.0, 0.0, 1e150]], "b": [[1e200, 0.0, 0.0], [0.0, 1e200, 0.0], [0.0, 0.0, 1e200]], "v": [1e-200, 1e-200, 1e-200]},
              {"a": [[1.0, 2.0, 3.0], [4.0, 5.0, 6.0], [7.0, 8.0, 9.0]], "b": [[0.5, 0.0, 0.0], [0.0, 0.5, 0.0], [0.0, 0.0, 0.5]], "v": [1.0, 2.0, 3.0]}]
    for opt in (False, True):
        vms = {}
        for name, src in progs.items():
            st, r = common.compile_source(src, {"optimize": opt})
            vms[name] = common.link_vm(r) if st == "ok" else None
        for chain, ref in (("a * b * v", "left-reference"), ("(a * b) * v", "left-reference"), ("a * (b * v)", "right-reference"), ("a * b * 2.5 * v", "scaled-reference")):
            if vms[chain] is None or vms[ref] is None:
                out.append(("reject-matrix-chain", f"compiler refuses `{chain}` or its reference", {"source": progs[chain], "optimize": opt}))
                continue
            for ins in inputs:
                res = []
                for nm in (chain, ref):
                    try:
                        with quiet():
                            res.append(repr(vms[nm].Invoke("f", **copy.deepcopy(ins))))
                    except BaseException as e:  # noqa
                        res.append("raise:" + type(e).__name__)
                if res[0] != res[1]:
                    out.append(("value-matrix-chain", f"`{chain}` (optimize={opt}) = {res[0]}, the grouping the language prescribes gives {res[1]}",
                                {"source": progs[chain], "reference": progs[ref], "inputs": ins, "optimize": opt}))
                    break
                out.append(("ran", None, None))
    return out


def work(job):
    """One TLC case x contexts x layouts on the real code."""
    rec, layouts, seed, vm_plan = job
    from nsl import parser
    rnd = random.Random(seed)
    exp_tree = strip(rec["tree"])
    out = []
    p = parser.NslParser()
    for ctxname in CONTEXTS:
        for layout in layouts:
            one(p, rec, exp_tree, ctxname, layout, rnd, vm_plan is None or (ctxname, layout) in vm_plan, 20, out)
    if vm_plan is None or seed % 3 == 0 or set(rec["ops"]) <= {"*", "/"} or set(rec["ops"]) <= {"+", "-"}:
        extras(rec, exp_tree, out)
    return out


def run(ctx, args):
    quick = ctx.tier == "quick"
    cfg = ("CONSTANTS MinN = 2 MaxN = 3\nINIT Init\nNEXT Next\n"
           "INVARIANT AgreesWithFunction\nINVARIANT KeepsOperandOrder\nINVARIANT RespectsPrecedence\n"
           "INVARIANT StackDiscipline\nINVARIANT Report\nCHECK_DEADLOCK FALSE\n")
    res = ctx.tlc("MC_C08", cfg)
    recs = res.records
    expected = 169 * 4 + 2197 * 7
    if len(recs) != expected:
        raise common.Machinery(f"expected {expected} TLC cases, got {len(recs)}")
    rnd = random.Random(ctx.seed)
    jobs = []
    for i, r in enumerate(recs):
        if quick:
            layouts = [0, rnd.choice([1, 2, 3, 4, 5])]
        else:
            layouts = [0, 1, 2, 3, 4, 5]
        # quick: every context x layout is parsed (tree comparison); pairs are all compiled and run, a triple is
        # compiled and run in the plain `return` context plus two seeded (context, layout) choices
        plan = None
        if quick and len(r["ops"]) == 3:
            plan = {("ret", 0)} | {(rnd.choice(CONTEXTS), rnd.choice(layouts)) for _ in range(2)}
        jobs.append((r, layouts, ctx.seed * 1000003 + i, plan))
    with mp.Pool(16) as pool:
        results = pool.map(work, jobs, chunksize=64)
    results.append(matrix_chain())
    evals = 0
    ran = 0
    for out in results:
        for kind, what, case in out:
            if kind == "ran":
                ran += 1
                continue
            if kind == "parsed":
                evals += 1
                continue
            ctx.violation(kind, what, case)
    # non-trivial: the case has two different precedence levels or a parenthesis group
    nontrivial = sum(1 for r in recs if r["span"] != [0, 0] or len({lvl(o) for o in r["ops"]}) > 1)
    samples = [{"tokens": " ".join(r["toks"]), "tree": show(strip(r["tree"])), "values": r["vals"]} for r in recs[:3]]
    return common.finish(
        ctx, level="model_checking", evaluations=evals, distinct_nontrivial=nontrivial,
        rule="TLC enumerates all 169 ordered pairs x 4 and 2197 triples x 7 parenthesis variants of the 13 binary "
             "operators; each is rendered in 9 contexts (return, assignment rhs, the four compound assignments, initializer, if condition, call argument) "
             f"x {'2' if quick else '6'} layouts and compared (tree via parser getters, value via the VM on 6 operand "
             "assignments). Extras: the same sequences with literal operands at both optimisation levels (all pairs, all sequences over + - and over * /, "
             "a third of the other triples) and, for * and /, with an int4 vector as first or second operand (component-wise value); chains of two matrices and a vector against the same grouping written with a temporary. "
             "Non-trivial = mixes two precedence levels or has a parenthesis group.",
        samples=samples, exhaustive=True, traces_validated=ran,
        assumptions=["operands are int parameters; value comparison skipped where the expression divides by zero or takes % of a negative"],
        extra={"tlc_cases": len(recs), "programs_run_on_vm": ran})


def lvl(o):
    return {"||": 1, "&&": 2, "==": 3, "!=": 3, "<": 4, "<=": 4, ">": 4, ">=": 4, "+": 5, "-": 5}.get(o, 6)
