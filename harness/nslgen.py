"""Seeded, grammar- and type-directed generator of NSL programs (as ASTs in the format of
spec/NslSem.tla).  It never decides what a program means: the meaning comes from NslSem.

The generator aims at programs that are well-typed, terminate (every loop has a bounded
counter) and mostly stay inside the numeric domain of the properties, and it mixes the
language rules with each other: precedence (expressions are printed with minimal
parentheses), promotion, compound assignment, ++/--, nested loops with break/continue,
early return, arrays, structs, globals, calls (nested, repeated, recursive, overloaded,
callees that assign to their parameters), vectors and matrices.
"""
import random

import nslast as A
from nslast import INT, FLOAT, UINT

FLOATS = [(0, 0), (1, 0), (2, 0), (3, 0), (1, 1), (3, 1), (1, 2), (5, 1), (4, 0), (7, 2)]
ARITH_I = ["+", "-", "*", "/", "%", "+", "-", "*"]
ARITH_F = ["+", "-", "*", "+", "-"]
CMP = ["<", "<=", ">", ">=", "==", "!="]


def scal(t):
    return t["k"] in ("int", "uint", "float")


class Gen:
    def __init__(self, seed, feat=None):
        self.r = random.Random(seed)
        f = dict(arrays=True, structs=True, calls=True, recursion=True, overloads=True, vectors=False,
                 globals_=True, uint=False, callee_writes_params=True, maxstmts=6, depth=2)
        f.update(feat or {})
        self.f = f

    # ------------------------------------------------------------ helpers
    def pick(self, xs):
        return self.r.choice(xs)

    def chance(self, p):
        return self.r.random() < p

    def fresh(self, prefix="v"):
        self.uid += 1
        return f"{prefix}{self.uid}"

    def lit(self, t):
        if t["k"] == "float":
            n, e = self.pick(FLOATS)
            return A.lit_f(n, e)
        if t["k"] == "uint":
            return A.lit_i(self.r.randint(0, 6), "int")
        return A.lit_i(self.pick([0, 1, 2, 3, 4, 5, 7, 2, 1, 3, -1, -2]))

    def vars_of(self, env, pred):
        return [n for n, t in env.items() if pred(t)]

    # ------------------------------------------------------------ expressions
    def atom(self, env, t):
        """a leaf expression whose static type converts to scalar type t without leaving the domain"""
        k = t["k"]
        cands = []
        for n, vt in env.items():
            if vt["k"] == k or (k == "float" and vt["k"] == "int"):
                cands.append(A.var(n))
            elif vt["k"] == "arr" and scal(vt["elem"]) and (vt["elem"]["k"] == k or (k == "float" and vt["elem"]["k"] == "int")):
                e = A.var(n)
                for d in vt["dims"]:
                    e = A.idx(e, self.index_expr(env, d))
                cands.append(e)
            elif vt["k"] == "struct":
                for fld in vt["fields"]:
                    if fld["t"]["k"] == k or (k == "float" and fld["t"]["k"] == "int"):
                        cands.append(A.mem(A.var(n), fld["n"]))
            elif vt["k"] == "vec" and self.f["vectors"] and (vt["c"] == k or (k == "float" and vt["c"] == "int")):
                cands.append(A.idx(A.var(n), A.lit_i(self.r.randrange(vt["n"]))) if self.chance(0.5)
                             else A.swz(A.var(n), [self.r.randrange(vt["n"])]))
        if cands and self.chance(0.75):
            return self.pick(cands)
        return self.lit(t)

    def index_expr(self, env, extent):
        """an int expression certainly inside 0..extent-1: a constant, or a loop counter whose limit is <= extent"""
        ctrs = [n for n, lim in self.counters.items() if lim <= extent and n in env]
        if ctrs and self.chance(0.5):
            return A.var(self.pick(ctrs))
        return A.lit_i(self.r.randrange(extent))

    def expr(self, env, t, d):
        """an expression of static scalar type convertible to t"""
        k = t["k"]
        if d <= 0 or self.chance(0.25):
            return self.atom(env, t)
        r = self.r.random()
        if r < 0.12 and self.f["calls"] and self.callable:
            cands = [f for f in self.callable if f["ret"]["k"] == k or (k == "float" and f["ret"]["k"] == "int")]
            if cands:
                return self.call(env, self.pick(cands), d - 1)
        if k == "int":
            if r < 0.45:
                op = self.pick(CMP)
                ot = self.pick([INT, INT, FLOAT])
                return A.bin_(op, self.expr(env, ot, d - 1), self.expr(env, self.pick([ot, INT]), d - 1))
            if r < 0.55:
                return A.bin_(self.pick(["&&", "||"]), self.expr(env, INT, d - 1), self.pure(env, INT, d - 1))
            op = self.pick(ARITH_I)
            if op in ("/", "%"):
                # divisor: a positive literal most of the time (division by zero is outside the domain)
                rhs = A.lit_i(self.pick([1, 2, 3, 4, 5])) if self.chance(0.8) else self.expr(env, INT, d - 1)
                return A.bin_(op, self.expr(env, INT, d - 1), rhs)
            if op == "*":
                return A.bin_(op, self.expr(env, INT, d - 1), A.lit_i(self.pick([2, 3, -1, 2])) if self.chance(0.7) else self.atom(env, INT))
            return A.bin_(op, self.expr(env, INT, d - 1), self.expr(env, INT, d - 1))
        if k == "uint":
            op = self.pick(["+", "*", "+"])
            return A.bin_(op, self.atom(env, t), self.atom(env, t))
        # float
        if r < 0.25:
            return A.bin_("/", self.expr(env, FLOAT, d - 1), self.pick([A.lit_f(2, 0), A.lit_f(4, 0), A.lit_f(1, 1), A.lit_i(2)]))
        op = self.pick(ARITH_F)
        if op == "*":
            return A.bin_(op, self.expr(env, self.pick([FLOAT, INT]), d - 1), self.pick([A.lit_f(1, 1), A.lit_f(2, 0), A.lit_i(3), A.lit_f(3, 1)]))
        lt = self.pick([FLOAT, INT, FLOAT])
        return A.bin_(op, self.expr(env, lt, d - 1), self.expr(env, FLOAT if lt is INT else self.pick([FLOAT, INT]), d - 1))

    def pure(self, env, t, d):
        """expression without calls (the right operand of && / || must not have effects to stay inside the domain)"""
        save = self.callable
        self.callable = []
        try:
            return self.expr(env, t, d)
        finally:
            self.callable = save

    def call(self, env, f, d):
        return A.call(f["name"], [self.arg(env, p["t"], d) for p in f["params"]])

    def arg(self, env, t, d):
        if scal(t):
            # exact parameter type most of the time, so that overloads are picked by an exact match
            return self.expr(env, t, d) if self.chance(0.8) else self.expr(env, INT, d)
        if t["k"] == "vec":
            vs = [n for n, vt in env.items() if vt == t]
            if vs and self.chance(0.7):
                return A.var(self.pick(vs))
            return A.cons(t, [self.expr(env, {"k": t["c"]}, 1) for _ in range(t["n"])])
        vs = [n for n, vt in env.items() if vt == t]
        return A.var(self.pick(vs)) if vs else None

    # ------------------------------------------------------------ statements
    def lvalue(self, env):
        """(lvalue expression, its scalar type) among assignable scalars; counters and parameters of aggregate type excluded"""
        cands = []
        for n, vt in env.items():
            if n in self.counters or n in self.readonly:
                continue
            if scal(vt):
                cands.append((A.var(n), vt))
            elif vt["k"] == "arr" and scal(vt["elem"]) and n not in self.aggparams:
                e = A.var(n)
                for dd in vt["dims"]:
                    e = A.idx(e, self.index_expr(env, dd))
                cands.append((e, vt["elem"]))
            elif vt["k"] == "struct" and n not in self.aggparams:
                for fld in vt["fields"]:
                    if scal(fld["t"]):
                        cands.append((A.mem(A.var(n), fld["n"]), fld["t"]))
            elif vt["k"] == "vec" and self.f["vectors"]:
                j = self.r.randrange(vt["n"])
                cands.append((A.idx(A.var(n), A.lit_i(j)) if self.chance(0.5) else A.swz(A.var(n), [j]), {"k": vt["c"]}))
        return self.pick(cands) if cands else None

    def assign(self, env):
        lv = self.lvalue(env)
        if lv is None:
            return A.EMPTY
        e, t = lv
        if self.chance(0.35):
            op = self.pick(["+", "-", "*", "+", "-"] if t["k"] != "float" else ["+", "-", "*", "/"])
            if op == "/":
                rhs = self.pick([A.lit_f(2, 0), A.lit_f(4, 0), A.lit_i(2)])
            elif op == "*":
                rhs = self.pick([A.lit_i(2), A.lit_i(3), A.lit_f(1, 1) if t["k"] == "float" else A.lit_i(-1)])
            else:
                rhs = self.expr(env, t, 2)
            return A.estmt(A.casg(op, e, rhs))
        return A.estmt(A.asg(e, self.expr(env, t, 3)))

    def stmts(self, env, depth, n, inloop):
        env = dict(env)          # declarations stay inside this block
        out = []
        for _ in range(n):
            s = self.stmt(env, depth, inloop)
            out.extend(s if isinstance(s, list) else [s])
        return out

    def stmt(self, env, depth, inloop):
        r = self.r.random()
        if r < 0.16:
            t = self.pick([INT, FLOAT, INT] + ([UINT] if self.f["uint"] else []))
            n = self.fresh()
            s = A.decl(n, t, self.expr(env, t, 2) if self.chance(0.75) else None)
            env[n] = t
            return s
        if r < 0.21 and self.f["arrays"]:
            n = self.fresh("t")
            t = A.arr(self.pick([INT, FLOAT]), [self.r.randint(2, 3)] + ([self.r.randint(2, 3)] if self.chance(0.3) else []))
            env[n] = t
            return A.decl(n, t)
        if r < 0.25 and self.f["structs"] and self.structs:
            n = self.fresh("s")
            env[n] = self.structs[0]
            return A.decl(n, self.structs[0])
        if r < 0.50:
            return self.assign(env)
        if r < 0.56:
            nums = [n for n, t in env.items() if t["k"] in ("int", "float") and n not in self.counters and n not in self.readonly]
            if nums:
                return A.estmt(A.inc(self.pick(nums), self.pick(["+", "-"]), self.chance(0.5)))
        if r < 0.68 and depth > 0:
            return A.if_(self.expr(env, INT, 2), A.block(self.stmts(env, depth - 1, self.r.randint(1, 2), inloop)),
                         A.block(self.stmts(env, depth - 1, self.r.randint(1, 2), inloop)) if self.chance(0.5) else None)
        if r < 0.84 and depth > 0:
            return self.loop(env, depth)
        if r < 0.90 and inloop:
            return A.if_(self.expr(env, INT, 2), A.block([self.pick([A.BREAK, A.CONTINUE])]))
        if r < 0.93 and depth < self.f["depth"]:
            return A.if_(self.expr(env, INT, 2), A.block([A.ret(self.expr(env, self.rt, 2))]))
        if r < 0.97 and self.f["calls"] and self.effectful:
            f = self.pick(self.effectful)
            return A.estmt(self.call(env, f, 1))
        return self.assign(env)

    def loop(self, env, depth):
        i = self.fresh("i")
        lim = self.r.randint(1, 4)
        kind = self.pick(["for", "while", "do"])
        self.counters[i] = lim
        env2 = dict(env)
        env2[i] = INT
        body = self.stmts(env2, depth - 1, self.r.randint(1, 3), True)
        cond = A.bin_("<", A.var(i), A.lit_i(lim))
        if kind == "for":
            return A.for_(A.decl(i, INT, A.lit_i(0)), cond, A.inc(i, "+", self.chance(0.5)), A.block(body))
        # while / do: the counter is incremented first, so that continue cannot skip it
        body = [A.estmt(A.inc(i, "+", False))] + body
        env[i] = INT
        loop = A.while_(cond, A.block(body)) if kind == "while" else A.do_(A.block(body), cond)
        return [A.decl(i, INT, A.lit_i(0)), loop]

    # ------------------------------------------------------------ functions / programs
    def func(self, name, exported, genv, params, rt, allow_agg_writes=False):
        self.uid = 0
        self.counters = {}
        self.rt = rt
        self.readonly = set()
        self.aggparams = {n for n, t in params if not scal(t) and t["k"] in ("arr", "struct")}
        env = dict(genv)
        env.update({n: t for n, t in params})
        if not self.f["callee_writes_params"] and not exported:
            self.readonly = {n for n, t in params}
        body = self.stmts(env, self.f["depth"], self.r.randint(2, self.f["maxstmts"]), False)
        # declarations at the top level of the body are visible to the final return: re-derive them
        env_top = dict(env)
        for s in body:
            if s["k"] == "decl":
                env_top[s["n"]] = s["t"]
        body.append(A.ret(self.expr(env_top, rt, 3)))
        return A.func(name, params, rt, A.block(body), exported)

    def params(self, lo=1, hi=3, kinds=None):
        kinds = kinds or [INT, FLOAT, INT]
        return [(f"p{j}", self.pick(kinds)) for j in range(self.r.randint(lo, hi))]

    def recursive(self, name):
        """rec(n, x): bounded recursion with a value that is live across the recursive call"""
        t = self.pick([INT, FLOAT])
        step = self.pick([A.bin_("+", A.var("keep"), A.var("sub")), A.bin_("-", A.var("sub"), A.var("keep")),
                          A.bin_("+", A.bin_("*", A.var("n"), A.lit_i(2)), A.var("sub")),
                          A.bin_("+", A.var("x"), A.var("sub"))])
        body = A.block([
            A.if_(A.bin_("<=", A.var("n"), A.lit_i(0)), A.block([A.ret(A.var("x"))])),
            A.decl("keep", t, A.bin_("+", A.var("x"), A.var("n"))),
            A.decl("sub", t, A.call(name, [A.bin_("-", A.var("n"), A.lit_i(1)), A.bin_("+", A.var("x"), A.lit_i(1))])),
            A.estmt(A.asg(A.var("n"), A.bin_("+", A.var("n"), A.lit_i(100)))) if self.chance(0.3) else A.EMPTY,
            A.ret(step)])
        return A.func(name, [("n", INT), ("x", t)], t, body)

    def program(self):
        self.uid = 0
        self.structs = []
        self.callable = []
        self.effectful = []
        self.counters = {}
        structs = []
        if self.f["structs"] and self.chance(0.4):
            st = A.struct("S0", [("a", INT), ("b", FLOAT)])
            structs.append(st)
            self.structs = [st]
        gl = []
        if self.f["globals_"]:
            for j in range(self.r.randint(0, 3)):
                gl.append((f"g{j}", self.pick([INT, FLOAT, INT])))
            if self.f["arrays"] and self.chance(0.25):
                gl.append(("ga", A.arr(INT, [3])))
        genv = {n: t for n, t in gl}
        funcs = []
        if self.f["calls"]:
            nh = self.r.randint(0, 3)
            for kf in range(nh):
                pure = self.chance(0.6)
                env_for = {} if pure else genv
                ps = self.params()
                if self.f["vectors"] and self.chance(0.4):
                    ps.append((f"p{len(ps)}", A.vec(self.pick(["float", "int"]), self.r.randint(2, 4))))
                f = self.func(f"h{kf}", False, env_for, ps, self.pick([INT, FLOAT]))
                funcs.append(f)
                self.callable = self.callable + [f]
                if not pure:
                    self.effectful = self.effectful + [f]
            if self.f["overloads"] and self.chance(0.5):
                # the same name for an int and a float parameter, with different bodies
                for pt in (INT, FLOAT):
                    f = self.func("ov", False, {}, [("q", pt)], self.pick([INT, FLOAT]))
                    funcs.append(f)
                self.callable = self.callable + funcs[-2:]
            if self.f["recursion"] and self.chance(0.4):
                f = self.recursive("rec")
                funcs.append(f)
                self.callable = self.callable + [f]
        funcs.append(self.func("f", True, genv, self.params(), self.pick([INT, FLOAT])))
        return A.prog(gl, funcs, structs)

    def value(self, t):
        k = t["k"]
        if k == "int":
            return self.r.randint(-4, 9)
        if k == "uint":
            return self.r.randint(0, 9)
        if k == "float":
            n, e = self.pick(FLOATS)
            return (n if self.chance(0.8) else -n) / 2 ** e
        if k == "vec":
            return [self.value({"k": t["c"]}) for _ in range(t["n"])]
        if k == "mat":
            return [[self.value({"k": t["c"]}) for _ in range(t["n"])] for _ in range(t["r"])]
        if k == "arr":
            sub = t["elem"] if len(t["dims"]) == 1 else A.arr(t["elem"], t["dims"][1:])
            return [self.value(sub) for _ in range(t["dims"][0])]
        if k == "struct":
            return {f["n"]: self.value(f["t"]) for f in t["fields"]}
        raise ValueError(k)

    def inputs(self, prog, entry="f"):
        f = [x for x in prog["funcs"] if x["name"] == entry and x["exported"]][0]
        args = {p["n"]: A.enc(self.value(p["t"]), p["t"]) for p in f["params"]}
        gl = {g["n"]: A.enc(self.value(g["t"]), g["t"]) for g in prog["globals"]}
        return args, gl
