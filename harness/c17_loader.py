"""Loads stored IR modules in THIS (fresh) process with the real loader and reports, per module: the
InstructionPrinter listing, the projection, and what the VM returns for the given calls.
argv: repo dir, harness dir, JSON file with [{"path", "calls": [{"args", "globals"}]}]; prints one JSON document."""
import copy
import json
import os
import sys

repo, harness, jobfile = sys.argv[1:4]
sys.path.insert(0, harness)
sys.path.insert(0, repo)
os.environ["NSL_VERIF"] = "1"
from nsl import LinearIR   # noqa: E402
import irproj              # noqa: E402
import nslast as A         # noqa: E402

out = []
for job in json.load(open(jobfile)):
    rec = {"path": job["path"]}
    try:
        m = LinearIR.FilesystemModuleLoader().Load(job["path"])
        rec["listing"] = irproj.listing(m, LinearIR)
        # the same file once more under a name that every module of this process is stored to in turn
        # (store A to P, load P, store B to P, load P): the loader must return what the file holds now
        import shutil
        shared = f"same-name-{os.getpid()}"          # one name per loader process: several loader processes share the directory
        shutil.copyfile(job["path"], shared + ".nslir")
        rec["listing_same_name"] = irproj.listing(LinearIR.FilesystemModuleLoader().Load(shared), LinearIR)
        rec["proj"] = irproj.project_module(m, LinearIR)
        program = A.link(m)
        # the functions a call may name are those of the LINKED program (the module itself plus what it imports)
        rec["table"] = [{"name": f.Name, "argc": len(f.Type.Arguments)} for f in program.Functions.values()]
        rec["runs"] = []
        for c in job["calls"]:
            obs = A.run_vm(program, "f", {k: A.dec(v) for k, v in c["args"].items()}, {k: A.dec(v) for k, v in c["globals"].items()}, budget=300000)
            obs["ret_repr"] = A.show_py(obs.get("ret"))
            obs["ret_enc"] = repr(obs.get("ret"))
            obs["globals_enc"] = repr(obs.get("globals"))
            obs.pop("ret", None)
            obs.pop("globals", None)
            rec["runs"].append(obs)
    except BaseException as e:  # noqa
        rec["error"] = f"{type(e).__name__}: {e}"[:200]
    out.append(rec)
print(json.dumps(out))
