"""Running spec/NslSem.tla (through MC_Sem) on a batch of cases and judging the real VM's
observations against what the specification prescribes."""
import json

import common
import nslast as A

SEM_CFG = ("INIT Init\nNEXT Next\nINVARIANT Report\nINVARIANT Finished\nINVARIANT FrameExists\nINVARIANT GlobalsStable\n"
           "PROPERTY FrameIsolation\nPROPERTY CallDiscipline\nCHECK_DEADLOCK FALSE\n")


def run_sem(ctx, progs, cases, timeout=3000):
    """progs: list of program ASTs; cases: list of {id, p (1-based index into progs), entry, args (name -> spec value),
    globals (name -> spec value)}.  Returns {id: record printed by TLC}."""
    for p in progs:
        p.setdefault("structs", [])
    path = ctx.tmp("sem-batch.json")
    path.write_text(json.dumps({"progs": progs, "cases": cases}))
    res = ctx.tlc("MC_Sem", SEM_CFG, env={"BATCH": str(path)}, timeout=timeout)
    out = {}
    for r in res.records:
        out[r["id"]] = r
    missing = [c["id"] for c in cases if c["id"] not in out]
    if missing:
        raise common.Machinery(f"NslSem produced no verdict for {len(missing)} case(s), e.g. {missing[:3]} (log {res.path})")
    return out


def judge(sem, obs, gtypes=None):
    """sem: the record NslSem printed; obs: what the VM did (nslast.run_vm).
    Returns (kind, detail): kind in
      'agree'        spec says done, VM returned the prescribed value and globals
      'unjudged'     the run is outside the property's domain (ood / fuel / noreturn / ill) or the VM ran out of its step budget too
      'defined-fail' spec says divzero / oob and the VM failed (the defined failures)
      'wrong-value' | 'wrong-global' | 'vm-error' | 'vm-diverges' | 'missed-failure'   violations
    """
    st = sem["status"]
    if st in ("ood", "fuel", "noreturn", "ill"):
        return ("unjudged", st)
    if st in ("divzero", "oob"):
        if obs["ok"]:
            return ("unjudged", "defined failure in the reference; the property does not say what the VM does then")
        return ("defined-fail", st)
    assert st == "done", st
    if not obs["ok"]:
        if obs.get("fuel") and (obs.get("exc") == "RecursionError" or obs.get("msg") == "recursion depth"):
            # the host's recursion limit, not a property of the program: no statement promises unbounded call depth
            return ("unjudged", "call depth beyond the host's limit")
        if obs.get("fuel"):
            return ("vm-diverges", f"the reference finishes after {sem['steps']} steps, the VM exceeded its step budget ({obs['steps']} instructions)")
        return ("vm-error", f"{obs['exc']}: {obs['msg']} in {obs['where']}")
    if not A.same(sem["ret"], obs["ret"]):
        return ("wrong-value", f"VM returned {A.show_py(obs['ret'])}, the language prescribes {show_spec(sem['ret'])}")
    sg = sem.get("globals") or {}          # an empty TLA+ function prints as []
    for g, v in (sg.items() if isinstance(sg, dict) else ()):
        if g in obs["globals"] and not A.same(v, obs["globals"][g]):
            return ("wrong-global", f"global {g} = {A.show_py(obs['globals'][g])} after the call, the language prescribes {show_spec(v)}")
    return ("agree", "")


def conformance_work(job):
    """Generic spec->code replay of programs that TLC built, judged and ran.
    job = (labels, items); labels = {accepts_bad: (key, text), rejects_good: (keyprefix, text), entry, budget};
    items = [(key, [records...])], every record carrying ok, status, ret, globals, steps, args, init_globals and
    (at least one of them) prog.  Returns [(violation key | None | 'HOOK', text, case)]."""
    import nslast as A
    from common import time_limit, CaseTimeout
    labels, items = job
    out = []
    for key, recs in items:
        prog = [r for r in recs if isinstance(r.get("prog"), dict) and "funcs" in r["prog"]][0]["prog"]
        ok = recs[0]["ok"]
        src = A.pp(prog)
        case = {"case": key, "source": src, "language_accepts": ok}
        for opt in (False, True):
            c2 = dict(case, optimize=opt)
            try:
                with time_limit(120):
                    st, r, info = common.compile_traced(src, {"optimize": opt})
            except CaseTimeout:
                out.append(("compile-timeout", "compilation did not finish in 120 s", c2))
                continue
            if not info["hook_ok"]:
                out.append(("HOOK", None, None))
            if st == "ok" and not ok:
                out.append((labels["accepts_bad"][0], labels["accepts_bad"][1], c2))
                continue
            if st != "ok" and ok:
                why = info["failed_pass"] or ":".join(str(r).split(":")[:2])
                out.append((f"{labels['rejects_good'][0]}:{why}", f"{labels['rejects_good'][1]} ({str(r)[:70]}; failed pass: {info['failed_pass']})", c2))
                continue
            if st != "ok":
                out.append((None, "ok-reject:" + (info["failed_pass"] or "crash:" + ":".join(str(r).split(":")[:2])), None))
                continue
            out.append((None, "ok-accept", None))
            program = A.link(r)
            for rec in recs:
                args = {k: A.dec(v) for k, v in rec["args"].items()}
                g0 = {k: A.dec(v) for k, v in rec["init_globals"].items()} if isinstance(rec["init_globals"], dict) else {}
                obs = A.run_vm(program, labels.get("entry", "f"), args, g0, budget=labels.get("budget", 100000))
                kind, detail = judge(rec, obs)
                c3 = dict(c2, args=args, init_globals=g0, reference={k: rec[k] for k in ("status", "ret", "steps", "globals")})
                if kind in ("agree", "unjudged", "defined-fail"):
                    out.append((None, "run-" + kind, None))
                else:
                    out.append(("run-" + kind, f"args {args}: {detail}", c3))
    return out


def tally(ctx, results):
    """Fold conformance_work results into ctx.violations; returns (counts, evaluations)."""
    counts = {}
    evals = 0
    hook_missing = 0
    for out in results:
        for key, what, case in out:
            if key == "HOOK":
                hook_missing += 1
                continue
            evals += 1
            if key is None:
                counts[what] = counts.get(what, 0) + 1
            else:
                ctx.violation(key, what, case)
    if hook_missing:
        raise common.Machinery(f"compiler hook silent in {hook_missing} compilations (NSL_VERIF hook missing from the tree under test?)")
    return counts, evals


def show_spec(s):
    t = s["t"]
    if t in ("int", "uint"):
        return str(s["v"])
    if t == "float":
        return repr(s["n"] / 2 ** s["e"])
    if t in ("vec", "arr"):
        return "[" + ", ".join(show_spec(x) for x in s["c"]) + "]"
    if t == "mat":
        return "[" + ", ".join("[" + ", ".join(show_spec(x) for x in r) + "]" for r in s["c"]) + "]"
    if t == "struct":
        return "{" + ", ".join(f"{k}: {show_spec(v)}" for k, v in s["f"].items()) + "}"
    return t
