"""Instruction-level trace validation of nsl/VM.py against spec/IRMachine.tla.

The VM hook (NSL_VERIF=1: _verif_tracer.enter / step / leave) is called before every instruction.
StepTracer logs one event per executed instruction - activation depth, function, pc, opcode - and,
when the same activation reaches its next instruction, the value the VM left in the instruction's
register (that moment is the linearisation point of the sequential VM: nothing else can run between
an instruction and the next hook call of its activation; for a CALL it is the moment the callee has
returned).  TLC then runs IRMachine over the projected module and the recorded events: every event has
to be the machine's own next step and every logged register value the machine's value.
"""
import copy
import json
import math
import sys
from fractions import Fraction

import common
import irproj
import nslast as A

CFG = ("INIT Init\nNEXT Next\nINVARIANT Report\nPROPERTY FrameIsolation\nCHECK_DEADLOCK FALSE\n")


def enc_dyn(v, t):
    """Python value in a VM register -> tagged value, by the value's own class (t = type of the instruction, used to tell
    vector / matrix / array lists apart).  None when the value has no exact representation in the specification."""
    if v is None:
        return None
    if isinstance(v, bool):
        return {"t": "int", "v": int(v)}
    if isinstance(v, int):
        return {"t": "int", "v": v} if abs(v) < 2 ** 30 else None
    if isinstance(v, float):
        if math.isnan(v) or math.isinf(v):
            return None
        fr = Fraction(v)
        e = fr.denominator.bit_length() - 1
        if fr.denominator == 2 ** e and abs(fr.numerator) < 2 ** 30 and e <= 20:
            return {"t": "float", "n": fr.numerator, "e": e}
        return None
    if isinstance(v, list):
        k = t.get("k")
        if k == "mat":
            rows = [[enc_dyn(x, {"k": t["c"]}) for x in row] if isinstance(row, list) else None for row in v]
            if any(r is None or any(x is None for x in r) for r in rows):
                return None
            return {"t": "mat", "c": rows}
        if k == "arr":
            sub = t["elem"] if len(t["dims"]) == 1 else {"k": "arr", "elem": t["elem"], "dims": t["dims"][1:]}
            xs = [enc_dyn(x, sub) for x in v]
            return None if any(x is None for x in xs) else {"t": "arr", "c": xs}
        xs = [enc_dyn(x, {"k": t.get("c", "int")}) for x in v]
        return None if any(x is None for x in xs) else {"t": "vec", "c": xs}
    if isinstance(v, dict):
        ft = {f["n"]: f["t"] for f in t.get("fields", [])} if t.get("k") == "struct" else {}
        out = {}
        for name, x in v.items():
            if not isinstance(name, str):
                return None
            y = enc_dyn(x, ft.get(name, {"k": "int"}))
            if y is None:
                return None
            out[name] = y
        return {"t": "struct", "f": out} if out else None
    return None


class StepTracer(A.StepCounter):
    def __init__(self, budget, L, max_events=1200):
        super().__init__(budget, False)
        self.L = L
        self.frames = []
        self.events = []
        self.max_events = max_events
        self.truncated = False

    def enter(self, ctx, function, instructions, localScope, args):
        super().enter(ctx, function, instructions, localScope, args)
        self.frames.append({"fn": function.Name, "ls": localScope, "ins": instructions, "last": None})

    def _finalize(self, fr):
        if fr["last"] is None:
            return
        idx, ins = fr["last"]
        fr["last"] = None
        ref = ins.Reference
        if isinstance(ref, int) and not isinstance(ref, bool) and ref in fr["ls"]:
            try:
                res = enc_dyn(fr["ls"][ref], irproj.tyj(ins.Type, self.L))
            except Exception:  # noqa - a register holding something unforeseen is simply not compared
                res = None
            if res is not None:
                self.events[idx]["res"] = res

    def step(self, function, pc, localScope, args):
        super().step(function, pc, localScope, args)
        while self.frames and self.frames[-1]["ls"] is not localScope:
            self.frames.pop()                      # callees that ended with a return statement
        fr = self.frames[-1]
        self._finalize(fr)
        if len(self.events) >= self.max_events:
            self.truncated = True
            return
        ins = fr["ins"][pc]
        ref = ins.Reference if isinstance(ins.Reference, int) else -1
        self.events.append({"d": len(self.frames), "f": fr["fn"], "pc": pc, "op": ins.OpCode.name, "ref": ref})
        fr["last"] = (len(self.events) - 1, ins)

    def leave(self, function, localScope):
        super().leave(function, localScope)
        if self.frames and self.frames[-1]["ls"] is localScope:
            self.frames.pop()


def machine_module(program, L):
    """projection of a linked program / module for IRMachine (constants without an exact representation become ood)"""
    m = irproj.project_module(program, L)
    for f in m["funcs"]:
        for c in f["consts"]:
            if c["v"].get("t") not in ("int", "uint", "float"):
                c["v"] = {"t": "ood"}
        for b in f["blocks"]:
            for d in b["ins"]:
                if d.get("scope") == "FUNCTION_ARGUMENT":
                    try:
                        d["vari"] = int(d["var"])
                    except ValueError:
                        d["vari"] = -1
    return m


def trace_run(program, L, entry, kwargs, globals_, budget=100000, max_events=1200):
    """Invoke entry on a fresh VM with the step tracer.  Returns (obs, events, truncated); obs as nslast.run_vm."""
    from nsl import VM
    tr = StepTracer(budget, L, max_events)
    vm = VM.VirtualMachine(program)
    for k, v in globals_.items():
        vm.SetGlobal(k, copy.deepcopy(v))
    VM._verif_tracer = tr
    try:
        with common.quiet():
            r = vm.Invoke(entry, **copy.deepcopy(kwargs))
        obs = {"ok": True, "ret": r, "globals": {k: vm.GetGlobal(k) for k in globals_}}
    except A.Fuel as e:
        obs = {"ok": False, "fuel": True, "exc": "Fuel", "msg": str(e), "where": ""}
    except RecursionError:
        obs = {"ok": False, "fuel": True, "exc": "RecursionError", "msg": "", "where": ""}
    except BaseException as e:  # noqa
        obs = {"ok": False, "fuel": False, "exc": type(e).__name__, "msg": str(e)[:120], "where": A.innermost_nsl_frame(sys.exc_info()[2])}
    finally:
        VM._verif_tracer = None
    obs["steps"] = tr.steps
    obs["ret_repr"] = A.show_py(obs.get("ret"))
    return obs, tr.events, tr.truncated


def run_machine(ctx, mods, cases, timeout=3000, name="irm-batch.json"):
    """mods: machine_module projections; cases: {id, m (1-based), entry, args [tagged], globals {name: tagged}, trace [events]}.
    Returns {id: verdict record}."""
    path = ctx.tmp(name)
    path.write_text(json.dumps({"mods": mods, "cases": cases}))
    res = ctx.tlc("IRMachine", CFG, env={"BATCH": str(path)}, timeout=timeout)
    out = {r["id"]: r for r in res.records if "id" in r}
    missing = [c["id"] for c in cases if c["id"] not in out]
    if missing:
        raise common.Machinery(f"IRMachine produced no verdict for {len(missing)} case(s), e.g. {missing[:3]} (log {res.path})")
    return out, res


ILLFORMED = ("undefined-operand", "unknown-variable", "unknown-callee", "bad-branch-target")


def judge(v, obs, events, truncated):
    """verdict record of IRMachine + what the VM did -> (kind, detail).
      agree | unjudged | defined-fail
      step-diverged | step-result | final-value | final-global | vm-error | ir-illformed     (violations)"""
    st = v["status"]
    if st == "result-mismatch":
        e = events[v["lastidx"] - 1]
        return ("step-result", f"event {v['lastidx'] - 1}: {e['f']} pc {e['pc']} {e['op']} left {json.dumps(e.get('res'))[:160]} in %{e['ref']}, "
                               f"the IR machine computes {json.dumps(v.get('spec'))[:160]}")
    if st == "diverged":
        e = events[v["l"] - 1]
        return ("step-diverged", f"event {v['l'] - 1}: the VM executes {e['f']} pc {e['pc']} {e['op']} at depth {e['d']}, "
                                 f"the IR machine is at {v['fn']} pc {v['pc']} depth {v['depth']}")
    if st in ILLFORMED:
        return ("ir-illformed", f"{st} ({v.get('why')}) at {v['fn']} pc {v['pc'] - 1}")
    if st == "trace-ends-early":
        if truncated or obs.get("fuel"):
            return ("unjudged", "trace cut at the event limit")
        if not obs["ok"]:
            return ("vm-error", f"{obs['exc']}: {obs['msg']} in {obs['where']} while the IR machine continues at {v['fn']} pc {v['pc']}")
        return ("step-diverged", f"the VM returned after {len(events)} instructions, the IR machine continues at {v['fn']} pc {v['pc']}")
    if st in ("ood", "ill"):
        return ("unjudged", st)
    if st in ("divzero", "oob"):
        return ("defined-fail", st) if not obs["ok"] else ("unjudged", "defined failure in the machine; the VM went on")
    assert st == "done", st
    if not obs["ok"]:
        if obs.get("fuel"):
            return ("unjudged", "budget")
        return ("vm-error", f"{obs['exc']}: {obs['msg']} in {obs['where']} after the last instruction")
    if v["ret"].get("t") != "void" and not A.same(v["ret"], obs["ret"]):
        return ("final-value", f"VM returned {A.show_py(obs['ret'])}, the IR machine {json.dumps(v['ret'])[:160]}")
    sg = v.get("globals") or {}
    for g, x in (sg.items() if isinstance(sg, dict) else ()):
        if g in obs["globals"] and isinstance(x, dict) and x.get("t") in ("int", "uint", "float", "vec", "mat", "arr", "struct") and not A.same(x, obs["globals"][g]):
            return ("final-global", f"global {g} = {A.show_py(obs['globals'][g])}, the IR machine {json.dumps(x)[:160]}")
    return ("agree", "")


def spec_eq(a, b):
    """numeric equality of two tagged values printed by TLC (5 == 5.0; containers element-wise)"""
    if isinstance(a, dict) and isinstance(b, dict) and "t" in a and "t" in b:
        num = ("int", "uint", "float")
        if a["t"] in num and b["t"] in num:
            fa = Fraction(a["v"]) if a["t"] != "float" else Fraction(a["n"], 2 ** a["e"])
            fb = Fraction(b["v"]) if b["t"] != "float" else Fraction(b["n"], 2 ** b["e"])
            return fa == fb
        if a["t"] != b["t"]:
            return False
        if a["t"] in ("vec", "arr", "mat"):
            return len(a["c"]) == len(b["c"]) and all(spec_eq(x, y) for x, y in zip(a["c"], b["c"]))
        if a["t"] == "struct":
            return set(a["f"]) == set(b["f"]) and all(spec_eq(a["f"][k], b["f"][k]) for k in a["f"])
        return True
    if isinstance(a, list) and isinstance(b, list):
        return len(a) == len(b) and all(spec_eq(x, y) for x, y in zip(a, b))
    if isinstance(a, dict) and isinstance(b, dict):
        return set(a) == set(b) and all(spec_eq(a[k], b[k]) for k in a)
    return a == b
