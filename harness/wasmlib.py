"""Helpers for the WebAssembly checks (C06, C07, C19): compiling with the wasm option,
running spec/WasmBinary.tla over a batch of byte strings, and wasmtime as an independent
second engine (used only to cross-check the TLA+ decoder/validator/interpreter itself:
a disagreement between the two is a machinery failure, never a verdict)."""
import io
import json

import common
from common import quiet


def compile_wasm(src, options=None):
    """-> ("ok", bytes, Result) | ("refused", why, None)"""
    opts = dict(options or {})
    opts["wasm"] = True
    st, r = common.compile_source(src, opts)
    if st != "ok":
        return ("refused", str(r)[:160], None)
    if r.WasmModule is None:
        return ("refused", "no wasm module in the result", None)
    try:
        buf = io.BytesIO()
        with quiet():
            r.WasmModule.WriteTo(buf)
    except BaseException as e:  # noqa
        return ("refused", f"raise:{type(e).__name__}:{e}"[:160], None)
    return ("ok", buf.getvalue(), r)


WB_CFG = "INIT Init\nNEXT Next\nINVARIANT Report\nPROPERTY Forward\nCHECK_DEADLOCK FALSE\n"


def run_wasmbinary(ctx, cases, timeout=900):
    """cases: [{id, bytes: [int], calls: [{name: [int], args: [spec values]}]}] -> {id: record}"""
    out = {}
    for lo in range(0, len(cases), 2000):
        part = cases[lo:lo + 2000]
        path = ctx.tmp("wasm-batch.json")
        path.write_text(json.dumps(part))
        res = ctx.tlc("WasmBinary", WB_CFG, env={"BATCH": str(path)}, timeout=timeout)
        for r in res.records:
            out[r["id"]] = r
    missing = [c["id"] for c in cases if c["id"] not in out]
    if missing:
        raise common.Machinery(f"WasmBinary produced no verdict for {len(missing)} module(s), e.g. {missing[:3]}")
    return out


_ENGINE = []


def _engine10():
    """an engine restricted to WebAssembly 1.0 (the property says '1.0 binary'): every post-1.0 proposal switched off"""
    if not _ENGINE:
        import wasmtime
        c = wasmtime.Config()
        for k in ("wasm_gc", "wasm_function_references", "wasm_reference_types", "wasm_relaxed_simd", "wasm_simd", "wasm_bulk_memory", "wasm_multi_memory", "wasm_multi_value",
                  "wasm_tail_call", "wasm_threads", "wasm_memory64", "wasm_exceptions", "wasm_wide_arithmetic", "wasm_custom_page_sizes", "wasm_stack_switching", "wasm_component_model"):
            try:
                setattr(c, k, False)
            except BaseException:  # noqa - an option this wasmtime build does not have
                pass
        _ENGINE.append(wasmtime.Engine(c))
    return _ENGINE[0]


def wasmtime_check(b, calls=()):
    """-> {"valid": bool, "why": str, "results": [python value | ("trap", msg) | ("noexport",)]}"""
    import wasmtime
    try:
        store = wasmtime.Store(_engine10())
        m = wasmtime.Module(store.engine, b)
    except BaseException as e:  # noqa
        return {"valid": False, "why": str(e).replace("\n", " ")[:200], "results": []}
    res = []
    try:
        inst = wasmtime.Instance(store, m, [])
        ex = inst.exports(store)
        for name, args in calls:
            f = ex.get(name) if hasattr(ex, "get") else None
            if f is None:
                try:
                    f = ex[name]
                except BaseException:  # noqa
                    res.append(("noexport",))
                    continue
            try:
                res.append(f(store, *args))
            except BaseException as e:  # noqa
                res.append(("trap", str(e).split("\n")[0][:80]))
    except BaseException as e:  # noqa
        return {"valid": True, "why": "instantiate: " + str(e)[:100], "results": res}
    return {"valid": True, "why": "", "results": res}
