"""Tracers for the VM hook (nsl/VM.py: _verif_tracer.enter / step / leave).

CallTracer observes every activation: which function is entered with which argument values
(by value: a deep copy at the moment of entry), and - the frame-isolation observation - a
snapshot of the caller's arguments and named locals taken when it executes a CALL, compared
with the same frame when the caller executes its next instruction.  The linearisation point
of the sequential VM is "before the next instruction of the caller"."""
import copy

import nslast as A


class CallTracer(A.StepCounter):
    def __init__(self, budget, max_events=4000):
        super().__init__(budget, False)
        self.frames = []            # live frames: dict(fn, ls, args, ins, pending)
        self.enters = []            # (function name, argument values at entry, depth)
        self.isolation = []         # violations: dict(fn, callee, what, before, after)
        self.calls_checked = 0
        self.max_events = max_events

    def enter(self, ctx, function, instructions, localScope, args):
        super().enter(ctx, function, instructions, localScope, args)
        if len(self.enters) < self.max_events:
            self.enters.append((function.Name, copy.deepcopy(list(args)), len(self.frames) + 1))
        self.frames.append({"fn": function.Name, "ls": localScope, "args": args, "ins": instructions, "pending": None})

    def step(self, function, pc, localScope, args):
        super().step(function, pc, localScope, args)
        fr = self.frames[-1]
        if fr["ls"] is not localScope:
            # a callee ended without passing through leave (return statement): unwind
            while self.frames and self.frames[-1]["ls"] is not localScope:
                self.frames.pop()
            fr = self.frames[-1]
        if fr["pending"] is not None:
            before_args, before_named, callee = fr["pending"]
            fr["pending"] = None
            self.calls_checked += 1
            now_named = {k: v for k, v in localScope.items() if isinstance(k, str)}
            if list(args) != before_args:
                self.isolation.append({"fn": fr["fn"], "callee": callee, "what": "arguments", "before": before_args, "after": copy.deepcopy(list(args))})
            elif now_named != before_named:
                self.isolation.append({"fn": fr["fn"], "callee": callee, "what": "locals", "before": before_named, "after": copy.deepcopy(now_named)})
        ins = fr["ins"][pc]
        self.last_op = ins.OpCode.name          # the instruction about to execute (the site of a failure, if one follows)
        self.last_fn = fr["fn"]
        if ins.OpCode.name == "CALL":
            fr["pending"] = (copy.deepcopy(list(args)), copy.deepcopy({k: v for k, v in localScope.items() if isinstance(k, str)}), ins.Function)

    def leave(self, function, localScope):
        super().leave(function, localScope)
        if self.frames and self.frames[-1]["ls"] is localScope:
            self.frames.pop()


def run_traced(program, entry, args, globals_, budget=300000):
    """Like nslast.run_vm but with the call tracer; adds enters / isolation / calls_checked to the result."""
    import sys
    from nsl import VM
    from common import quiet
    tr = CallTracer(budget)
    vm = VM.VirtualMachine(program)
    for k, v in globals_.items():
        vm.SetGlobal(k, copy.deepcopy(v))
    VM._verif_tracer = tr
    try:
        with quiet():
            r = vm.Invoke(entry, **copy.deepcopy(args))
        out = {"ok": True, "ret": r, "globals": {k: vm.GetGlobal(k) for k in globals_}}
    except A.Fuel as e:
        out = {"ok": False, "fuel": True, "exc": "Fuel", "msg": str(e), "where": ""}
    except RecursionError:
        out = {"ok": False, "fuel": True, "exc": "RecursionError", "msg": "", "where": ""}
    except BaseException as e:  # noqa
        out = {"ok": False, "fuel": False, "exc": type(e).__name__, "msg": str(e)[:120], "where": A.innermost_nsl_frame(sys.exc_info()[2])}
    finally:
        VM._verif_tracer = None
    out.update(steps=tr.steps, hook_steps=tr.steps, enters=tr.enters, isolation=tr.isolation, calls_checked=tr.calls_checked,
               last_op=getattr(tr, "last_op", None), last_fn=getattr(tr, "last_fn", None))
    return out
