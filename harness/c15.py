"""C15 - global state persists exactly across invocation histories; VMs are isolated.

Binding (A), histories from TLC: spec/VMHistory.tla composes host operations (SetGlobal,
Invoke = start / NslSem steps / finish) on two VMs of one program; TLC explores every
history over an alphabet of 9 operations per VM up to a depth (and random longer histories
in simulation mode), checking the action properties Isolation, Persistence and FreshLocals
on the specification, and prints every complete history with the prescribed result of each
operation and the prescribed globals afterwards.  The driver replays each history on real
VirtualMachine objects built from one linked Program and compares, after every operation,
the returned value and GetGlobal of every global of BOTH VMs.
"""
import copy
import json
import multiprocessing as mp

import common
import nslast as A
import semrun
from nslast import INT, FLOAT

V, L, B = A.var, A.lit_i, A.bin_


def library():
    s0 = A.struct("S0", [("a", INT), ("b", FLOAT)])
    gl = [("gi", INT), ("gf", FLOAT), ("ga", A.arr(INT, [3])), ("gs", s0), ("gv", A.vec("float", 2)), ("gb", A.arr(INT, [3])), ("gt", s0)]
    fs = [
        A.func("bump", [("a", INT)], INT, A.block([A.estmt(A.asg(V("gi"), B("+", V("gi"), V("a")))), A.estmt(A.asg(V("gf"), B("+", V("gf"), A.lit_f(1, 1)))), A.ret(V("gi"))]), True),
        A.func("loc", [("a", INT)], INT, A.block([A.decl("c", INT), A.decl("t", A.arr(INT, [2])), A.estmt(A.asg(V("c"), B("+", V("c"), V("a")))),
                                                  A.estmt(A.asg(A.idx(V("t"), L(1)), B("+", A.idx(V("t"), L(1)), V("c")))),
                                                  A.estmt(A.asg(A.idx(V("ga"), L(0)), B("+", A.idx(V("ga"), L(0)), A.idx(V("t"), L(1))))),
                                                  A.ret(B("+", B("*", V("c"), L(10)), A.idx(V("t"), L(0))))]), True),
        A.func("acc", [("i", INT), ("v", INT)], INT, A.block([A.estmt(A.asg(A.idx(V("ga"), V("i")), B("+", A.idx(V("ga"), V("i")), V("v")))),
                                                              A.ret(B("+", B("+", A.idx(V("ga"), L(0)), A.idx(V("ga"), L(1))), A.idx(V("ga"), L(2))))]), True),
        A.func("setv", [("x", FLOAT)], FLOAT, A.block([A.estmt(A.asg(A.swz(V("gv"), [0]), V("x"))), A.estmt(A.asg(A.mem(V("gs"), "b"), B("+", A.mem(V("gs"), "b"), V("x")))),
                                                       A.estmt(A.asg(A.mem(V("gs"), "a"), B("+", A.mem(V("gs"), "a"), L(1)))),
                                                       A.ret(B("+", A.swz(V("gv"), [1]), A.mem(V("gs"), "b")))]), True),
        A.func("early", [("a", INT)], INT, A.block([A.if_(B(">", V("a"), L(0)), A.block([A.ret(V("gi"))])), A.estmt(A.asg(V("gi"), L(0))), A.ret(L(-1))]), True),
        A.func("copyarr", [("a", INT)], INT, A.block([A.decl("t", A.arr(INT, [3])), A.decl("s", s0), A.estmt(A.asg(A.idx(V("t"), L(0)), B("+", A.idx(V("t"), L(0)), V("a")))),
                                                      A.estmt(A.asg(A.mem(V("s"), "a"), B("+", A.mem(V("s"), "a"), V("a")))),
                                                      A.estmt(A.asg(V("ga"), V("t"))), A.estmt(A.asg(V("gs"), V("s"))),
                                                      A.ret(B("+", A.idx(V("ga"), L(0)), A.mem(V("gs"), "a")))]), True),
        # recursion with a value that is live across the recursive call, accumulated into a global
        A.func("sumto", [("n", INT)], INT, A.block([A.if_(B("<=", V("n"), L(0)), A.block([A.ret(L(0))])), A.decl("keep", INT, B("*", V("n"), L(2))),
                                                    A.decl("sub", INT, A.call("sumto", [B("-", V("n"), L(1))])), A.estmt(A.asg(V("gi"), B("+", V("gi"), V("keep")))),
                                                    A.ret(B("+", V("keep"), V("sub")))]), True),
        # loops inside and after one another with break / continue taken, globals written between them
        A.func("scan", [("n", INT)], INT, A.block([
            A.decl("c", INT, L(0)),
            A.for_(A.decl("i", INT, L(0)), B("<", V("i"), V("n")), A.inc("i", "+", False), A.block([
                A.for_(A.decl("j", INT, L(0)), B("<", V("j"), V("n")), A.inc("j", "+", False), A.block([
                    A.if_(B(">", V("j"), V("i")), A.block([A.BREAK])), A.estmt(A.asg(V("c"), B("+", V("c"), L(1))))])),
                A.if_(B("==", V("i"), L(1)), A.block([A.CONTINUE])),
                A.estmt(A.asg(V("gi"), B("+", V("gi"), V("c"))))])),
            A.estmt(A.asg(V("gf"), B("+", V("gf"), V("c")))),
            A.decl("k", INT, L(0)),
            A.while_(B("<", V("k"), L(5)), A.block([A.estmt(A.asg(V("k"), B("+", V("k"), L(1)))), A.if_(B(">", V("k"), L(2)), A.block([A.BREAK]))])),
            A.estmt(A.asg(A.idx(V("ga"), L(2)), B("+", A.idx(V("ga"), L(2)), V("k")))),
            A.ret(B("+", B("*", V("c"), L(10)), V("k")))]), True),
        # two private overloads whose parameters have the same name
        A.func("put", [("v", INT)], INT, A.block([A.estmt(A.asg(V("gi"), B("+", V("gi"), V("v")))), A.ret(L(1))])),
        A.func("put", [("v", FLOAT)], INT, A.block([A.estmt(A.asg(V("gf"), B("+", V("gf"), V("v")))), A.ret(L(2))])),
        A.func("puts", [("a", INT)], INT, A.block([A.decl("r", INT, A.call("put", [V("a")])), A.decl("q", INT, A.call("put", [A.lit_f(3, 1)])), A.ret(B("+", B("*", V("r"), L(10)), V("q")))]), True),
        # a call without arguments that writes a global, between a store to that global and a load of it
        A.func("inc10", [], INT, A.block([A.estmt(A.asg(V("gi"), B("+", V("gi"), L(10)))), A.ret(V("gi"))])),
        A.func("stale", [("a", INT)], INT, A.block([A.estmt(A.asg(V("gi"), V("a"))), A.estmt(A.call("inc10", [])), A.estmt(A.asg(V("gf"), V("gi"))), A.ret(V("gi"))]), True),
        # aggregates returned by a call and stored: the receiver owns a copy (a later write to the source does not show)
        A.func("getga", [], A.arr(INT, [3]), A.block([A.ret(V("ga"))])),
        A.func("getgs", [], s0, A.block([A.ret(V("gs"))])),
        A.func("pick", [("a", INT)], INT, A.block([A.decl("t", A.arr(INT, [3]), A.call("getga", [])), A.decl("u", s0, A.call("getgs", [])),
                                                   A.estmt(A.asg(A.idx(V("ga"), L(1)), B("+", A.idx(V("ga"), L(1)), V("a")))),
                                                   A.estmt(A.asg(A.mem(V("gs"), "a"), B("+", A.mem(V("gs"), "a"), V("a")))),
                                                   A.estmt(A.asg(A.idx(V("t"), L(2)), L(77))), A.estmt(A.asg(V("gb"), V("t"))), A.estmt(A.asg(V("gt"), V("u"))),
                                                   A.ret(B("+", B("+", A.idx(V("t"), L(1)), A.mem(V("u"), "a")), A.idx(V("ga"), L(2))))]), True),
    ]
    prog = A.prog(gl, fs, [s0])
    init = {n: A.enc(A.zero_py(t), t) for n, t in gl}
    ops = [
        {"k": "invoke", "f": "bump", "args": {"a": A.enc(1, INT)}},
        {"k": "invoke", "f": "loc", "args": {"a": A.enc(5, INT)}},
        {"k": "invoke", "f": "acc", "args": {"i": A.enc(1, INT), "v": A.enc(4, INT)}},
        {"k": "invoke", "f": "setv", "args": {"x": A.enc(0.5, FLOAT)}},
        {"k": "invoke", "f": "early", "args": {"a": A.enc(0, INT)}},
        {"k": "invoke", "f": "copyarr", "args": {"a": A.enc(3, INT)}},
        {"k": "invoke", "f": "sumto", "args": {"n": A.enc(3, INT)}},
        {"k": "invoke", "f": "stale", "args": {"a": A.enc(2, INT)}},
        {"k": "invoke", "f": "scan", "args": {"n": A.enc(2, INT)}},
        {"k": "invoke", "f": "puts", "args": {"a": A.enc(3, INT)}},
        {"k": "invoke", "f": "pick", "args": {"a": A.enc(6, INT)}},
        {"k": "set", "g": "gi", "v": A.enc(7, INT)},
        {"k": "set", "g": "ga", "v": A.enc([1, 2, 3], A.arr(INT, [3]))},
    ]
    return prog, init, ops


_PROGRAM = {}


def replay(job):
    hists, src, init, opt = job
    if opt not in _PROGRAM:
        st, r = common.compile_source(src, {"optimize": opt})
        if st != "ok":
            return [("library-rejected", f"the compiler refuses the library program (optimize={opt}: {r})", {"source": src})]
        _PROGRAM[opt] = A.link(r)
    from nsl import VM
    out = []
    for hist in hists:
        vms = [VM.VirtualMachine(_PROGRAM[opt]) for _ in range(2)]
        known = [{g: v for g, v in init.items()} for _ in range(2)]          # prescribed globals of each VM (spec values)
        for vm in vms:
            for g, v in init.items():
                vm.SetGlobal(g, A.dec(v))
        trail = []
        for step_no, e in enumerate(hist):
            v = e["vm"] - 1
            op = e["op"]
            desc = (f"vm{e['vm']}.Invoke({op['f']}, {({k: A.dec(x) for k, x in op['args'].items()})})" if op["k"] == "invoke"
                    else f"vm{e['vm']}.SetGlobal({op['g']}, {A.dec(op['v'])})")
            trail.append(desc)
            case = {"history": list(trail), "failing_operation": step_no + 1, "optimize": opt}
            if e["st"] in ("ood", "fuel", "ill", "noreturn"):
                break
            if op["k"] == "set":
                vms[v].SetGlobal(op["g"], A.dec(op["v"]))
            else:
                obs = A.run_vm(None, op["f"], {k: A.dec(x) for k, x in op["args"].items()}, {}, budget=100000, vm=vms[v])
                if e["st"] in ("divzero", "oob"):
                    if obs["ok"]:
                        out.append((None, "unjudged", None))
                    break
                if not obs["ok"]:
                    out.append((f"vm-error:{op['f']}:{obs['exc']}", f"{desc} fails on the VM ({obs['exc']}: {obs['msg']}) after {trail[:-1]}", case))
                    break
                if not A.same(e["res"], obs["ret"]):
                    out.append((f"wrong-result:{op['f']}", f"{desc} returned {A.show_py(obs['ret'])}, the reference history prescribes {semrun.show_spec(e['res'])} (after {len(trail) - 1} earlier operations)", case))
                    break
            known[v] = e["after"]
            bad = None
            for w in range(2):
                for g, sv in known[w].items():
                    got = copy.deepcopy(vms[w].GetGlobal(g))
                    if not A.same(sv, got):
                        bad = (w, g, got, sv)
                        break
                if bad:
                    break
            if bad:
                w, g, got, sv = bad
                if w != v:
                    out.append(("other-vm-changed", f"after {desc}, global {g} of vm{w + 1} reads {A.show_py(got)}, it must still be {semrun.show_spec(sv)}", case))
                else:
                    out.append((f"wrong-global:{op.get('f', 'set')}:{g}", f"after {desc}, GetGlobal({g}) = {A.show_py(got)}, the reference history prescribes {semrun.show_spec(sv)}", case))
                break
        else:
            out.append((None, "agree", None))
            continue
        if not out or out[-1][0] is None:
            out.append((None, "stopped-unjudged", None))
    return out


def run(ctx, args):
    quick = ctx.tier == "quick"
    prog, init, ops = library()
    src = A.pp(prog)
    lib = ctx.tmp("vmhistory-lib.json")
    lib.write_text(json.dumps({"prog": prog, "ops": ops, "init": init, "vms": 2}))
    depth = 2 if quick else 3          # 26^2 = 676 / 26^3 = 17 576 complete histories; longer ones by simulation (the thorough tier goes deeper by simulation instead)
    cfg = (f"CONSTANTS Depth = {depth}\nINIT HInit\nNEXT HNext\nINVARIANT NamesKept\nINVARIANT Report\n"
           "PROPERTY Isolation\nPROPERTY Persistence\nPROPERTY FreshLocals\nCHECK_DEADLOCK FALSE\n")
    res = ctx.tlc("VMHistory", cfg, env={"BATCH": str(lib)}, timeout=6000)
    hists = [r["hist"] for r in res.records]
    want = (len(ops) * 2) ** depth
    if len(hists) != want:
        raise common.Machinery(f"expected {want} complete histories from TLC, got {len(hists)}")
    # longer random histories: TLC simulation mode over the same specification
    sdepth = 10 if quick else 16
    num = 700 if quick else 12000
    cfg2 = (f"CONSTANTS Depth = {sdepth}\nINIT HInit\nNEXT HNext\nINVARIANT NamesKept\nINVARIANT Report\nCHECK_DEADLOCK FALSE\n")
    res2 = ctx.tlc("VMHistory", cfg2, env={"BATCH": str(lib)}, timeout=6000, simulate=f"num={num}", depth=sdepth * 150, seedarg=ctx.seed + 1, workers=1)
    long_h = [r["hist"] for r in res2.records]
    if len(long_h) < num // 2:
        raise common.Machinery(f"simulation produced only {len(long_h)} complete histories")
    allh = hists + long_h
    jobs = [(allh[i:i + 200], src, init, opt) for opt in (False, True) for i in range(0, len(allh), 200)]
    with mp.Pool(16) as pool:
        results = pool.map(replay, jobs)
    counts = {}
    for out in results:
        for key, what, case in out:
            if key is None:
                counts[what] = counts.get(what, 0) + 1
            else:
                ctx.violation(key, what, case)
    if counts.get("agree", 0) == 0 and not ctx.violations:
        raise common.Machinery("vacuous run: no history agreed")
    both = sum(1 for h in allh if len({e["vm"] for e in h}) == 2)
    samples = [[(f"vm{e['vm']}", e["op"].get("f", "set " + e["op"].get("g", "")), e["st"], semrun.show_spec(e["res"])) for e in h] for h in (hists[777 % len(hists)], long_h[0])]
    return common.finish(
        ctx, level="model_checking", evaluations=len(allh), distinct_nontrivial=both,
        rule=f"TLC explores all {len(hists)} histories of {depth} host operations over 2 VMs x {len(ops)} operations ({len(ops) - 2} invocations touching scalar, array, struct and vector "
             f"globals, fresh aggregate locals, a call that writes a global between a store and a load of it, aggregates returned by calls; 2 SetGlobal) and {len(long_h)} random histories of {sdepth} operations (simulation mode, seed {ctx.seed + 1}); every "
             "history is replayed on two real VirtualMachine objects of one linked Program, compiled without and with optimisation; after each operation the result and every global of both VMs "
             "are compared. distinct_nontrivial = histories that operate on both VMs.",
        samples=samples, exhaustive=True, traces_validated=counts.get("agree", 0),
        assumptions=["host values are deep-copied by the driver, so aliasing introduced by the host cannot be blamed on the VM",
                     "globals are set to zero values of their declared types before the history starts (a fresh VM holds None)"],
        extra={"outcome_counts": counts, "exhaustive_histories": len(hists), "simulated_histories": len(long_h)})
