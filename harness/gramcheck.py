"""Conformance of the real parser with spec/Grammar.tla at the statement level (spec -> code).  TLC decides for every token
sequence over a 17-token alphabet up to a length, and for seeded random derivations and their one-token mutations, whether it is a
function body; the driver wraps each sequence in a function and asks nsl.parser.  No listed property is about statement syntax as
such, so a difference is a CONFORMANCE-NOTE (counted in the evidence), never a verdict."""
import json
import random

import common

RENDER = {"T": "int", "x": "a", "n": "1", "S": '"lib"'}
ALPHABET = ["{", "}", "(", ")", ";", "=", "if", "else", "while", "do", "for", "return", "break", "continue", "T", "x", "n"]


def gen_e(r, d):
    if d > 0 and r.random() < 0.2:
        return [r.choice(["x", "T"]), "("] + gen_e(r, d - 1) + [")"]
    if d > 0 and r.random() < 0.3:
        return [r.choice(["x", "n"]), "="] + gen_e(r, d - 1)
    return [r.choice(["x", "n"])]


def gen_decl(r):
    return [r.choice(["T", "T", "x"]), "x"] + (["="] + gen_e(r, 1) if r.random() < 0.5 else [])


def gen_stmt(r, d):
    k = r.randrange(11 if d > 0 else 5)
    if k == 0:
        return gen_decl(r) + [";"]
    if k == 1:
        return gen_e(r, 2) + [";"]
    if k == 2:
        return ["return"] + (gen_e(r, 1) if r.random() < 0.6 else []) + [";"]
    if k == 3:
        return [r.choice(["break", "continue"]), ";"]
    if k == 4:
        return ["{"] + ([] if d == 0 else gen_list(r, d - 1)) + ["}"]
    if k == 5:
        return ["{"] + gen_list(r, d - 1) + ["}"]
    if k == 6:
        return ["if", "("] + gen_e(r, 1) + [")"] + gen_stmt(r, d - 1) + (["else"] + gen_stmt(r, d - 1) if r.random() < 0.5 else [])
    if k == 7:
        return ["while", "("] + gen_e(r, 1) + [")"] + ([";"] if r.random() < 0.3 else gen_stmt(r, d - 1))
    if k == 8:
        return ["do", "{"] + gen_list(r, d - 1) + ["}", "while", "("] + gen_e(r, 1) + [")"]
    return ["for", "("] + (gen_decl(r) if r.random() < 0.6 else []) + [";"] + (gen_e(r, 1) if r.random() < 0.6 else []) + [";"] + \
        (gen_e(r, 1) if r.random() < 0.6 else []) + [")"] + gen_stmt(r, d - 1)


def gen_list(r, d):
    out = []
    for _ in range(r.randrange(0, 3)):
        out += gen_stmt(r, d)
    return out


def probes(seed, n):
    r = random.Random(seed)
    out = set()
    while len(out) < n:
        s = gen_list(r, 2) or gen_stmt(r, 1)
        if len(s) > 16:
            continue
        out.add(tuple(s))
        for _ in range(3):          # one-token mutations: delete, replace, insert, swap
            t = list(s)
            i = r.randrange(len(t))
            m = r.randrange(4)
            if m == 0:
                del t[i]
            elif m == 1:
                t[i] = r.choice(ALPHABET)
            elif m == 2:
                t.insert(i, r.choice(ALPHABET))
            elif i + 1 < len(t):
                t[i], t[i + 1] = t[i + 1], t[i]
            out.add(tuple(t))
    return [list(x) for x in sorted(out)]


def work(job):
    mode, recs = job
    from nsl import parser
    p = parser.NslParser()
    out = []
    for r in recs:
        toks = r["text"]
        if mode == "body":
            inner = " ".join(RENDER.get(t, t) for t in toks)
        else:
            # every identifier occurrence gets its own spelling (a duplicate field or function name is not a matter of syntax)
            k = [0]

            def ren(t):
                if t == "x":
                    k[0] += 1
                    return f"a{k[0]}"
                return RENDER.get(t, t)
            inner = " ".join(ren(t) for t in toks)
        src = ("export function f(int a) -> int\n{\n  " + inner + "\n}\n") if mode == "body" else inner + "\n"
        try:
            with common.quiet():
                m = p.Parse(src)
            got = m is not None
        except SystemExit:
            got = False
        except BaseException:  # noqa - the error rule itself fails at end of input (t is None): a refusal
            got = False
        if got != r["ok"]:
            out.append(("parser-accepts" if got else "parser-refuses", " ".join(RENDER.get(t, t) for t in toks)))
        else:
            out.append((None, None))
    return out


def module_probes(seed, n):
    r = random.Random(seed)

    def item():
        k = r.randrange(5)
        if k == 0:
            return ["import", "S", ";"]
        if k == 1:
            return gen_decl(r) + [";"]
        if k == 2:
            f = []
            for _ in range(r.randrange(0, 3)):
                f += [r.choice(["T", "x"]), "x", ";"]
            return ["struct", "x", "{"] + f + ["}"]
        args = []
        for j in range(r.randrange(0, 3)):
            args += ([","] if j else []) + [r.choice(["T", "x"])] + (["x"] if r.random() < 0.7 else [])
        head = (["export"] if r.random() < 0.5 else []) + ["function", "x", "("] + args + [")", "->", r.choice(["T", "x"])]
        return head + ([";"] if r.random() < 0.3 else ["{"] + (["return", "x", ";"] if r.random() < 0.5 else []) + ["}"])
    out = set()
    while len(out) < n:
        s = []
        for _ in range(r.randrange(1, 3)):
            s += item()
        if len(s) > 18:
            continue
        out.add(tuple(s))
        for _ in range(3):
            t = list(s)
            i = r.randrange(len(t))
            m = r.randrange(4)
            alpha = ["import", "S", ";", "struct", "x", "{", "}", "T", "function", "export", "(", ")", "->", ",", "=", "n"]
            if m == 0:
                del t[i]
            elif m == 1:
                t[i] = r.choice(alpha)
            elif m == 2:
                t.insert(i, r.choice(alpha))
            elif i + 1 < len(t):
                t[i], t[i + 1] = t[i + 1], t[i]
            out.add(tuple(t))
    return [list(x) for x in sorted(out)]


def run_grammar_conformance(ctx, maxlen, nprobes, mode="body"):
    import multiprocessing as mp
    path = ctx.tmp(f"grammar-probes-{mode}.json")
    pr = probes(ctx.seed * 7919 + 5, nprobes) if mode == "body" else module_probes(ctx.seed * 7919 + 6, nprobes)
    path.write_text(json.dumps(pr))
    cfg = f"CONSTANTS MaxLen = {maxlen} Mode = \"{mode}\"\nINIT Init\nNEXT Next\nINVARIANT BracesLaw\nINVARIANT ConcatLaw\nINVARIANT PrefixLaw\nINVARIANT Report\nCHECK_DEADLOCK FALSE\n"
    res = ctx.tlc("Grammar", cfg, env={"BATCH": str(path)}, timeout=3000)
    recs = [r for r in res.records if "ok" in r]
    if len(recs) < sum((17 if mode == "body" else 16) ** k for k in range(maxlen + 1)):
        raise common.Machinery(f"Grammar.tla produced only {len(recs)} verdicts")
    with mp.Pool(16) as pool:
        outs = pool.map(work, [(mode, recs[i:i + 400]) for i in range(0, len(recs), 400)])
    counts = {"texts": len(recs), "bodies": sum(1 for r in recs if r["ok"]), "agree": 0}
    for out in outs:
        for key, text in out:
            if key is None:
                counts["agree"] += 1
                continue
            counts[key] = counts.get(key, 0) + 1
            if counts[key] <= 3:
                msg = (f"CONFORMANCE-NOTE (not a verdict on any listed property): nsl/parser.py {'accepts' if key == 'parser-accepts' else 'refuses'} the {mode} `{text}`, "
                       f"spec/Grammar.tla says it is {'not ' if key == 'parser-accepts' else ''}a {'function body' if mode == 'body' else 'module'}")
                print(msg)
                ctx.notes.append(msg)
    return counts
