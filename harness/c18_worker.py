"""Replays one compilation history in THIS (fresh) process: compiles every request with a fresh
Compiler() and prints one JSON line with the digests (IR listing and wasm bytes).  Run with the
hash seed given by the parent through PYTHONHASHSEED, with cwd = a directory holding std.nslir."""
import contextlib
import hashlib
import io
import json
import sys

import glob
import os
import shutil
import tempfile

repo, spec = sys.argv[1], json.loads(sys.argv[2])
sys.path.insert(0, repo)
from nsl import Compiler, LinearIR   # noqa: E402

# a private copy of the library directory: a request may ask for another version of an imported library ("_lib"), which is put in
# place before that compilation (other worker processes share the original directory)
private = tempfile.mkdtemp(prefix="c18w", dir=os.environ.get("VERIF_SCRATCH", "/var/tmp"))
for f in glob.glob("*.nslir"):
    shutil.copy(f, private)
os.chdir(private)

out = []
for src, opts in spec:
    buf = io.StringIO()
    opts = dict(opts)
    lib = opts.pop("_lib", None)
    if lib is not None:
        shutil.copyfile(f"libc_{lib}.nslir", "libc.nslir")
    try:
        with contextlib.redirect_stdout(buf), contextlib.redirect_stderr(buf):
            r = Compiler.Compiler().Compile(src, dict(opts))
        if r is None:
            out.append("rejected")
            continue
        lines = []
        p = LinearIR.InstructionPrinter(lambda *a, end="\n": lines.append(" ".join(str(x) for x in a) + end))
        for f in r.IRModule.Functions.values():
            p.Print(f)
        d = hashlib.sha256("".join(lines).encode()).hexdigest()[:16]
        d += ":" + ",".join(sorted(str(x) for x in r.IRModule.Imports))
        if r.WasmModule is not None:
            b = io.BytesIO()
            r.WasmModule.WriteTo(b)
            d += ":" + hashlib.sha256(b.getvalue()).hexdigest()[:16]
        out.append(d)
    except SystemExit:
        out.append("exit")
    except BaseException as e:  # noqa
        out.append("raise:" + type(e).__name__)
os.chdir("/")
shutil.rmtree(private, ignore_errors=True)
print(json.dumps(out))
