"""C14 - every compiled IR module is well-formed.

Binding (B), static and over all paths: the real compiler's output (Result.IRModule, both
optimisation levels) is projected onto plain data and checked by spec/IRWellFormed.tla in
TLC: static invariants per function, and definition-before-use explored over EVERY
control-flow path of every function (conditional branches are nondeterministic choices).
Programs: the small-scope optimiser family (all statement sequences up to a length over
templates that put a forwarded load in front of every kind of user) and the seeded
generators of C01 / C03 (scalar core, calls, vectors).
"""
import json
import multiprocessing as mp

import common
import nslast as A
import nslgen
import optfamily
import irproj

FEATS = [dict(vectors=False), dict(vectors=True, structs=False, maxstmts=4, depth=1)]


def work(job):
    kind, items = job
    from nsl import LinearIR
    out = []
    for ident, prog in items:
        src = prog if isinstance(prog, str) else A.pp(prog)
        for opt in (False, True):
            try:
                with common.time_limit(120):
                    st, r, info = common.compile_traced(src, {"optimize": opt})
            except common.CaseTimeout:
                st, r = "timeout", "timeout"
            tag = f"{kind}:{ident}/{'O1' if opt else 'O0'}"
            if st != "ok":
                out.append({"id": tag, "rejected": str(r)[:100], "src": src, "opt": opt})
                continue
            m = irproj.project_module(r.IRModule, LinearIR)
            table = [{"name": f["name"], "argc": f["argc"]} for f in m["funcs"]]
            for f in m["funcs"]:
                out.append({"id": tag + "/" + f["name"], "fn": f, "table": table, "src": src, "opt": opt})
    return out


# sources whose acceptance is doubtful (several functions of one name, exported and not, with different parameter counts; calls to
# each of them): whatever the front end decides, a module it does produce has to be well-formed
RAW = [
    ("exported-overloads-arity", "export function f(int a) -> int\n{\n  return a + 1;\n}\nexport function f(int a, int b) -> int\n{\n  return a + b;\n}\nexport function g(int a) -> int\n{\n  return f(a) + f(a, 2);\n}\n"),
    ("exported-overloads-arity-rev", "export function f(int a, int b) -> int\n{\n  return a + b;\n}\nexport function f(int a) -> int\n{\n  return a + 1;\n}\nexport function g(int a) -> int\n{\n  return f(a, 2) * f(a);\n}\n"),
    ("exported-and-private-same-name", "function f(float a) -> int\n{\n  return 2;\n}\nexport function f(int a) -> int\n{\n  return a + 1;\n}\nexport function g(int a, float b) -> int\n{\n  return f(a) + f(b);\n}\n"),
    ("private-overloads-arity", "function f(int a) -> int\n{\n  return a + 1;\n}\nfunction f(int a, int b) -> int\n{\n  return a + b;\n}\nfunction f(int a, int b, int c) -> int\n{\n  return a + b + c;\n}\nexport function g(int a) -> int\n{\n  return f(a) + f(a, 2) + f(a, 2, 3);\n}\n"),
    ("call-literal-to-float-parameter", "function h(float x) -> float\n{\n  return x * 2.0;\n}\nfunction k(int p, int q) -> int\n{\n  return p * 10 + q;\n}\nexport function g(int a) -> float\n{\n  int t = a + 1;\n  return h(1) + k(t, a) + h(t);\n}\n"),
    ("struct-arguments", "struct S\n{\n  int a;\n  float b;\n}\nfunction g(S s, int k) -> int\n{\n  return s.a + k;\n}\nfunction g3(int k, S s, float x) -> float\n{\n  return s.b + k + x;\n}\n"
                         "export function f(int a) -> float\n{\n  S s;\n  s.a = a;\n  s.b = 0.5;\n  return g(s, 2) + g3(1, s, 2.0);\n}\n"),
    ("array-and-vector-arguments", "function g(int[3] t, float3 v, int k) -> float\n{\n  return t[k] + v.y;\n}\nexport function f(int a) -> float\n{\n  int[3] t;\n  t[1] = a;\n  float3 v = float3(1, 2, 3);\n  return g(t, v, 1) + g(t, v * 2.0, 2);\n}\n"),
    ("call-in-loop-with-forwarded-argument", "function k(int p) -> int\n{\n  return p + 1;\n}\nexport function g(int a) -> int\n{\n  int s = 0;\n  for (int i = 0; i < a; ++i)\n  {\n    int t = i * 2;\n    s = k(t) + k(s);\n  }\n  return s;\n}\n"),
]


def link_work(job):
    """Separately compiled modules (every import DAG on 3 modules, flat names and one directory per module), stored, linked with the
    default linker: the functions of the LINKED program, with the linked program's function table."""
    import contextlib
    import io
    import os
    import pickle
    import c16
    from nsl import Compiler, LinearIR
    scratch, opt = job
    out = []
    dags = [[sorted(a), sorted(b), []] for a in ([], [2], [3], [2, 3]) for b in ([], [3])]
    for k, dag in enumerate(dags):
        for naming in ("flat", "dirs"):
            d = os.path.join(scratch, f"c14link{int(opt)}", f"dag{k}{naming}")
            os.makedirs(d, exist_ok=True)
            os.chdir(d)
            tag = f"link:dag{k}{naming}/{'O1' if opt else 'O0'}"
            srcs = {}
            try:
                mods = {}
                for m in (3, 2, 1):
                    srcs[c16.mname(m, naming)] = c16.module_source(m, dag, "", 3, naming=naming)
                    with contextlib.redirect_stdout(io.StringIO()):
                        r = Compiler.Compiler().Compile(srcs[c16.mname(m, naming)], {"optimize": opt})
                    if r is None:
                        raise RuntimeError(f"module {m} rejected")
                    mods[m] = r.IRModule
                    os.makedirs(os.path.dirname(os.path.abspath(c16.mname(m, naming) + ".nslir")), exist_ok=True)
                    pickle.dump(r.IRModule, open(c16.mname(m, naming) + ".nslir", "wb"))
                with contextlib.redirect_stdout(io.StringIO()):
                    linker = LinearIR.Linker()
                    linker.AddModule(mods[1])
                    program = linker.Link()
            except BaseException as e:  # noqa
                out.append({"id": tag, "rejected": f"{type(e).__name__}: {e}"[:100], "src": json.dumps(srcs), "opt": opt})
                continue
            pm = irproj.project_module(program, LinearIR)
            table = [{"name": f["name"], "argc": f["argc"]} for f in pm["funcs"]]
            for f in pm["funcs"]:
                out.append({"id": tag + "/" + f["name"], "fn": f, "table": table, "src": json.dumps(srcs), "opt": opt})
    os.chdir("/")
    return out


def run(ctx, args):
    quick = ctx.tier == "quick"
    fam = optfamily.quick_family(ctx.seed) if quick else optfamily.programs(4)
    n = 250 if quick else 3000
    gen = []
    for i in range(n):
        g = nslgen.Gen(ctx.seed * 1000003 + i, FEATS[i % 2])
        gen.append((str(i), g.program()))
    jobs = [("fam", fam[i:i + 60]) for i in range(0, len(fam), 60)] + [("gen", gen[i:i + 25]) for i in range(0, len(gen), 25)] + [("raw", RAW)]
    with mp.Pool(16) as pool:
        recs = [r for out in pool.map(work, jobs) for r in out]
        recs += [r for out in pool.map(link_work, [(str(ctx.scratch), False), (str(ctx.scratch), True)]) for r in out]
    if not any(r["id"].startswith("link:") and "fn" in r for r in recs):
        raise common.Machinery("no linked multi-module program was produced: " + str([r.get("rejected") for r in recs if r["id"].startswith("link:")][:2]))
    fns = [r for r in recs if "fn" in r]
    rejected = [r for r in recs if "rejected" in r]
    srcs = {r["id"]: (r["src"], r["opt"]) for r in fns}
    verdict = {}
    undef = {}
    # identical functions (the helper of the family, functions the optimiser left alone) are checked once
    uniq, same_as = {}, {}
    for r in fns:
        key = json.dumps([r["fn"], r["table"]], sort_keys=True)
        if key in uniq:
            same_as.setdefault(uniq[key]["id"], []).append(r["id"])
        else:
            uniq[key] = r
    ufns = list(uniq.values())
    for lo in range(0, len(ufns), 4000):
        part = ufns[lo:lo + 4000]
        path = ctx.tmp("irwf-batch.json")
        path.write_text(json.dumps([{"id": r["id"], "fn": r["fn"], "table": r["table"]} for r in part]))
        res = ctx.tlc("IRWellFormed", "INIT Init\nNEXT Next\nVIEW View\nINVARIANT Report\nINVARIANT CrossComplete\nPROPERTY Monotone\nCHECK_DEADLOCK FALSE\n",
                      env={"BATCH": str(path)}, timeout=6000)
        for rec in res.records:
            if rec["kind"] == "static":
                verdict[rec["id"]] = rec
            else:
                undef.setdefault(rec["id"], []).append(rec["at"])
    for first, others in same_as.items():
        for o in others:
            if first in verdict:
                verdict[o] = verdict[first]
            if first in undef:
                undef[o] = undef[first]
    missing = [r["id"] for r in fns if r["id"] not in verdict]
    if missing:
        raise common.Machinery(f"IRWellFormed gave no verdict for {len(missing)} functions, e.g. {missing[:2]}")
    ninstr = sum(len(b["ins"]) for r in fns for b in r["fn"]["blocks"])
    multi = 0
    for r in fns:
        v = verdict[r["id"]]
        lvl = "O1" if r["opt"] else "O0"
        if len(r["fn"]["blocks"]) > 1:
            multi += 1
        case = {"function": r["id"], "optimize": r["opt"], "source": r["src"]}
        if not v["unique"]:
            ctx.violation(f"references-not-unique:{lvl}", f"{r['id']}: value references are not unique within the function", case)
        elif not v["targets"]:
            ctx.violation(f"branch-target:{lvl}", f"{r['id']}: a branch names a block that is not a block of this function, or has the wrong number of targets", case)
        elif not v["calls"]:
            ctx.violation(f"call-target:{lvl}", f"{r['id']}: a call names a function that does not exist in the program with that number of arguments", case)
        elif not v["operands"]:
            f = v["first"]
            ctx.violation(f"dangling-operand:{lvl}:{f[2]}", f"{r['id']}: block {f[0]} instruction {f[1]} ({f[2]}) has an operand {f[3]} that is neither a constant of the function nor the result of an instruction still in it", dict(case, at=f))
        elif r["id"] in undef:
            at = undef[r["id"]][0]
            ctx.violation(f"use-before-def:{lvl}:{at[2]}", f"{r['id']}: on some path, block {at[0]} instruction {at[1]} ({at[2]}) reads references {at[4]} before any instruction defined them", dict(case, at=at))
    samples = [{"function": r["id"], "blocks": len(r["fn"]["blocks"]), "instructions": sum(len(b["ins"]) for b in r["fn"]["blocks"]),
                "listing_head": [f"%{d['ref']} = {d['op']} {d['uses']}" for d in r["fn"]["blocks"][0]["ins"][:6]]} for r in fns[5::max(1, len(fns) // 3)][:3]]
    return common.finish(
        ctx, level="model_checking", evaluations=len(fns), distinct_nontrivial=multi,
        rule=f"{len(fam)} optimiser-family programs ({'all sequences of <= 2 and a seeded third of the sequences of length 3' if quick else 'all sequences of <= 4'} of the statement templates, the second alphabet) and {n} seeded programs, each compiled at "
             f"both optimisation levels: {len(fns)} functions / {ninstr} instructions projected and checked by IRWellFormed (static invariants + all control-flow paths; "
             "VIEW merges paths that agree on the references still usable). distinct_nontrivial = functions with more than one basic block.",
        samples=samples, traces_validated=len(fns),
        assumptions=["for the family and the seeded programs the linked program is the module itself; the 32 linked multi-module programs (8 import DAGs x 2 namings x 2 levels) are checked with the linked program's function table",
                     "a reference counts as defined once the instruction carrying it executed on the path; stores, branches and returns define nothing"],
        extra={"functions": len(fns), "instructions": ninstr, "modules_rejected_by_compiler": len(rejected),
               "rejected_examples": [{"id": r["id"], "why": r["rejected"]} for r in rejected[:5]]})
