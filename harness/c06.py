"""C06 - the WebAssembly backend agrees with the VM or refuses.

Binding (B): programs inside and just outside the backend's straight-line subset are
compiled with the wasm option.  A refusal (an error) is fine.  Otherwise the emitted bytes
are decoded, validated and EXECUTED by spec/WasmBinary.tla inside TLC (a conforming engine
for exactly the subset the backend can emit, on exact values) for several argument vectors
per exported function, and the result must equal what the real VM returns for the same
program and arguments; in addition the decoded body must contain a counterpart for every
IR instruction of the function (nothing silently dropped).  wasmtime executes the same
module: a disagreement between wasmtime and the TLA+ engine is a machinery failure.
"""
import multiprocessing as mp

import common
import nslast as A
import wasmgen
import wasmlib
import c07

IR_ARITH = {"ADD", "SUB", "MUL", "DIV", "CMP_EQ", "CMP_LT", "CMP_GT", "CMP_LE", "CMP_GE", "CMP_NE", "MOD", "LG_AND", "LG_OR"}
WASM_ARITH = {"add", "sub", "mul", "div_s", "div_u", "div", "eq", "ne", "lt_s", "lt_u", "gt_s", "gt_u", "le_s", "le_u", "ge_s", "ge_u", "lt", "gt", "le", "ge"}


def safe_enc(v, t):
    """argument for the TLA+ engine; a value outside its exact domain (beyond 2^30) is passed as 'ood' and the call is then judged through wasmtime"""
    try:
        return A.enc(v, t)
    except AssertionError:
        return {"t": "ood"}


def work(items):
    out = []
    for ident, prog, cls, seed in items:
        src = A.pp(prog)
        g = wasmgen.WGen(seed)
        for opt in (False, True):
            st, b, r = wasmlib.compile_wasm(src, {"optimize": opt})
            rec = {"id": f"{ident}/{'O1' if opt else 'O0'}", "cls": cls, "src": src, "st": st, "why": None if st == "ok" else b}
            if st == "ok":
                rec["bytes"] = list(b)
                program = A.link(r)
                calls = []
                irops = {}
                for f in prog["funcs"]:
                    if not f["exported"]:
                        continue
                    fn = r.IRModule.Functions[f["name"]]
                    irops[f["name"]] = [i.OpCode.name for i in fn.Instructions]
                    for _ in range(3):
                        args = {p["n"]: g.value(p["t"]) for p in f["params"]}
                        obs = A.run_vm(program, f["name"], args, {}, budget=100000)
                        obs["ret_repr"] = A.show_py(obs.get("ret"))
                        calls.append({"fn": f["name"], "params": f["params"], "args": args, "vm": obs})
                rec["calls"] = calls
                rec["irops"] = irops
            out.append(rec)
    return out


def run(ctx, args):
    n = 300 if ctx.tier == "quick" else 5000
    progs = [(i, p, c, ctx.seed * 7919 + k) for k, (i, p, c) in enumerate(c07.programs(ctx, n))]
    with mp.Pool(16) as pool:
        recs = [r for part in pool.map(work, [progs[i:i + 30] for i in range(0, len(progs), 30)]) for r in part]
    emitted = [r for r in recs if r["st"] == "ok"]
    batch = []
    for r in emitted:
        batch.append({"id": r["id"], "bytes": r["bytes"],
                      "calls": [{"name": list(c["fn"].encode()), "args": [safe_enc(c["args"][p["n"]], p["t"]) for p in c["params"]]} for c in r["calls"]]})
    verdict = wasmlib.run_wasmbinary(ctx, batch)
    counts = {}
    agree_calls = 0
    nontrivial = 0
    samples = []
    for r in recs:
        if r["st"] != "ok":
            counts["refused:" + r["cls"].split(":")[0]] = counts.get("refused:" + r["cls"].split(":")[0], 0) + 1
            continue
        v = verdict[r["id"]]
        base = {"source": r["src"], "id": r["id"], "class": r["cls"]}
        def i32(x):      # the engine's API takes i32 arguments as signed numbers
            return x - 2 ** 32 if isinstance(x, int) and x >= 2 ** 31 else x
        wt = wasmlib.wasmtime_check(bytes(r["bytes"]), [(c["fn"], [i32(c["args"][p["n"]]) for p in c["params"]]) for c in r["calls"]])
        if v["status"] == "invalid":
            if wt["valid"]:
                raise common.Machinery(f"WasmBinary rejects ({v['why']}) a module wasmtime accepts: {r['id']}")
            ctx.violation("emitted-module-invalid:" + v["why"][:50], f"no engine can run the emitted module: {v['why']}", base)
            continue
        if v["status"] == "unmodelled":
            counts["unmodelled"] = counts.get("unmodelled", 0) + 1
            results = [None] * len(r["calls"])
        else:
            results = v["results"]
        # nothing silently dropped: every arithmetic / comparison IR instruction has a counterpart in the body
        if v["status"] == "valid":
            names = [bytes(x["name"]).decode() for x in v["exports"]]
            for fname, ops in r["irops"].items():
                k = v["exports"][names.index(fname)]["index"] if fname in names else None
                if k is None:
                    ctx.violation("export-missing", f"exported function {fname} is not exported by the module", base)
                    continue
                want = sum(1 for o in ops if o in IR_ARITH)
                got = sum(1 for o in v["ops"][k] if o.split(".")[-1] in WASM_ARITH)
                if got != want:
                    ctx.violation("instructions-dropped", f"{fname}: the IR has {want} arithmetic/comparison instructions, the emitted body {got}", dict(base, ir=ops, body=v["ops"][k]))
        ok_here = True
        for j, c in enumerate(r["calls"]):
            vm = c["vm"]
            case = dict(base, function=c["fn"], args=c["args"], vm={k: vm.get(k) for k in ("ok", "ret_repr", "exc", "msg")})
            wres = wt["results"][j] if j < len(wt["results"]) else None
            sres = results[j]
            # the TLA+ engine against wasmtime (machinery cross-check), where the TLA+ engine has an exact answer
            if sres is not None and sres.get("t") in ("int", "float") and not isinstance(wres, tuple) and wres is not None:
                if not A.same(sres, wres):
                    raise common.Machinery(f"WasmBinary!Run gives {sres}, wasmtime gives {wres!r} for {r['id']} {c['fn']}({c['args']})\n{r['src']}")
            if not vm["ok"]:
                counts["vm-fails-not-judged"] = counts.get("vm-fails-not-judged", 0) + 1
                continue
            if sres is None or sres.get("t") in ("ood",):
                # outside the exact domain of the TLA+ engine: fall back on wasmtime, comparing in single precision
                import struct
                if vm.get("ret") is None and wres is None and j < len(wt["results"]):
                    # a function without a result: the VM returns nothing and the engine returned nothing (no trap, the export exists)
                    counts["void-agree"] = counts.get("void-agree", 0) + 1
                    continue
                if isinstance(wres, tuple) or wres is None:
                    ctx.violation("wasm-traps", f"{c['fn']}({c['args']}): the VM returns {vm['ret_repr']}, the module traps / has no such export ({wres})", case)
                    ok_here = False
                    continue
                want = vm["ret"]
                if isinstance(wres, float) or isinstance(want, float):
                    try:
                        same = struct.pack("<f", float(want)) == struct.pack("<f", float(wres))
                    except (OverflowError, struct.error):
                        same = True      # outside f32: not judged
                else:
                    same = (int(want) & 0xFFFFFFFF) == (int(wres) & 0xFFFFFFFF)        # ints exactly as 32-bit values
                if not same:
                    ctx.violation("value-differs-wasmtime", f"{c['fn']}({c['args']}): VM {vm['ret_repr']}, module (wasmtime) {wres!r}", case)
                    ok_here = False
                else:
                    counts["agree-by-wasmtime"] = counts.get("agree-by-wasmtime", 0) + 1
                continue
            if sres.get("t") == "divzero":
                ctx.violation("wasm-traps", f"{c['fn']}({c['args']}): the VM returns {vm['ret_repr']}, the module divides by zero", case)
                ok_here = False
                continue
            if sres.get("t") in ("noexport", "arity"):
                ctx.violation("export-signature", f"{c['fn']}: {sres['t']}", case)
                ok_here = False
                continue
            if not A.same(sres, vm["ret"]):
                ctx.violation("value-differs", f"{c['fn']}({c['args']}): the VM returns {vm['ret_repr']}, the emitted module returns {sres}", case)
                ok_here = False
                continue
            agree_calls += 1
        if ok_here and v["status"] == "valid":
            counts["modules-agree"] = counts.get("modules-agree", 0) + 1
            if sum(len(o) for o in v["ops"]) > 12:
                nontrivial += 1
            if len(samples) < 3 and r["calls"]:
                samples.append({"source": r["src"], "call": r["calls"][0]["args"], "vm": r["calls"][0]["vm"]["ret_repr"], "module": results[0]})
    if agree_calls == 0 and not ctx.violations:
        raise common.Machinery("vacuous run: no call compared")
    return common.finish(
        ctx, level="model_checking", evaluations=sum(len(r.get("calls", [])) for r in recs) + len(recs), distinct_nontrivial=nontrivial,
        rule=f"{len(progs)} programs (structural family + seeded, 1/3 with one construct outside the backend's subset) x 2 optimisation levels; {len(emitted)} emitted modules decoded, "
             "validated and executed by WasmBinary in TLC on 3 argument vectors per exported function, compared with the real VM; IR arithmetic instructions counted against the body; "
             "wasmtime runs the same calls as a cross-check of the TLA+ engine. distinct_nontrivial = agreeing modules with more than 12 instructions.",
        samples=samples or [{"note": "no agreeing module"}], traces_validated=agree_calls,
        assumptions=["refusal = any error from Compile / WriteTo", "calls the VM itself fails on (division by zero) are not judged",
                     "results outside the TLA+ engine's exact domain are compared through wasmtime in single precision"],
        extra={"outcome_counts": counts, "calls_agreeing_exactly": agree_calls})
