"""C17 - a stored IR module reloads to the same program.

Every generated program (scalar core, calls, vectors, structs, uint and int mixed; optimiser
family members) is compiled at both optimisation levels in one process (the reference:
listing, projection, VM results), written to a file by the real front end `nslc.py -o` in a
second process, and loaded by LinearIR.FilesystemModuleLoader in a third process, which
reports the listing, the projection and what the VM returns for every input.  Required:
identical listing, identical projection (operands, types, constants, targets - the object
graph as far as execution can see it), identical VM results; the reloaded module's results
are also judged against the outcome spec/NslSem.tla prescribes (TLC), and its functions go
through spec/IRWellFormed.tla.
"""
import json
import multiprocessing as mp
import os
import subprocess
import sys

import common
import nslast as A
import nslgen
import optfamily
import semrun
import irproj

FEATS = [dict(vectors=False, uint=True), dict(vectors=True, structs=False, maxstmts=4, depth=1, uint=True), dict(vectors=False, calls=False, maxstmts=8, uint=True)]


def observable(proj):
    """the projection without what no execution and no listing can see: constants that no instruction uses
    (a loader that drops them yields a module that lists and behaves identically, which is all the property asks)"""
    out = json.loads(json.dumps(proj))
    for f in out["funcs"]:
        used = {u for b in f["blocks"] for i in b["ins"] for u in i["uses"]}
        f["consts"] = sorted((c for c in f["consts"] if c["ref"] in used), key=lambda c: c["ref"])
        f.pop("cross", None)
    return out


def work(job):
    items, repo, harness, scratch = job
    from nsl import LinearIR
    out = []
    os.makedirs(scratch, exist_ok=True)
    loadjobs = []
    for ident, prog, inputs in items:
        src = prog if isinstance(prog, str) else A.pp(prog)
        for opt in (False, True):
            tag = f"{ident}-{'O1' if opt else 'O0'}"
            rec = {"id": tag, "src": src, "opt": opt, "prog": prog, "inputs": inputs}
            st, r = common.compile_source(src, {"optimize": opt})
            rec["st"] = st
            if st != "ok":
                rec["why"] = str(r)[:120]
                out.append(rec)
                continue
            rec["listing"] = irproj.listing(r.IRModule, LinearIR)
            rec["proj"] = irproj.project_module(r.IRModule, LinearIR)
            program = A.link(r)
            rec["runs"] = []
            for a, gl in inputs:
                obs = A.run_vm(program, "f", {k: A.dec(v) for k, v in a.items()}, {k: A.dec(v) for k, v in gl.items()}, budget=300000)
                rec["runs"].append({"ok": obs["ok"], "ret_enc": repr(obs.get("ret")), "globals_enc": repr(obs.get("globals")), "exc": obs.get("exc"), "fuel": obs.get("fuel"),
                                    "ret": obs.get("ret") if obs["ok"] else None, "globals": obs.get("globals") if obs["ok"] else None, "msg": obs.get("msg"), "where": obs.get("where"), "steps": obs.get("steps")})
            # store with the real front end, in its own process
            nsl_path = os.path.join(scratch, tag.replace(":", "_") + ".nsl")
            # the unoptimised module is stored as <name>.nslir, the optimised one next to it under the same stem with another suffix:
            # a stored file is loaded by the path it was stored under
            stem = os.path.join(scratch, (ident + "-O0").replace(":", "_"))
            ir_path = stem + (".O1" if opt else ".nslir")
            open(nsl_path, "w").write(src)
            cmd = [sys.executable, os.path.join(repo, "nslc.py"), nsl_path, "-o", ir_path] + (["-O,--optimization-level", "1"] if opt else [])
            p = subprocess.run(cmd, capture_output=True, text=True, cwd=scratch, env=dict(os.environ, PYTHONPATH=repo))
            rec["store_rc"] = p.returncode
            rec["store_out"] = (p.stdout + p.stderr)[-200:]
            rec["ir_path"] = ir_path
            if p.returncode == 0 and os.path.exists(ir_path):
                loadjobs.append({"path": ir_path, "calls": [{"args": a, "globals": gl} for a, gl in inputs]})
            out.append(rec)
    # load everything in ONE other process
    jf = os.path.join(scratch, f"load-{os.getpid()}-{items[0][0].replace(':', '_')}.json")
    json.dump(loadjobs, open(jf, "w"))
    p = subprocess.run([sys.executable, os.path.join(harness, "c17_loader.py"), repo, harness, jf], capture_output=True, text=True, cwd=scratch)
    try:
        loaded = {x["path"]: x for x in json.loads(p.stdout.strip().splitlines()[-1])}
    except BaseException:  # noqa
        loaded = {}
        for rec in out:
            rec["loader_crash"] = (p.stdout + p.stderr)[-300:]
    for rec in out:
        if rec.get("ir_path") in loaded:
            rec["loaded"] = loaded[rec["ir_path"]]
    return out


def run(ctx, args):
    quick = ctx.tier == "quick"
    n = 150 if quick else 2500
    items = []
    for i in range(n):
        g = nslgen.Gen(ctx.seed * 1000003 + i, FEATS[i % 3])
        prog = g.program()
        items.append((f"gen{i}", prog, [g.inputs(prog) for _ in range(2)]))
    fam = optfamily.programs(2)
    items += [(f"fam{k}", prog, [({"a": A.enc(a, A.INT)}, {"g": A.enc(2, A.INT)}) for a in (1, 4)]) for k, (name, prog) in enumerate(fam[::3])]
    # functions whose first statement is a loop (the loop header is the entry block), entered and not entered
    V, L, B = A.var, A.lit_i, A.bin_
    inc_a = A.estmt(A.asg(V("a"), B("+", V("a"), L(2))))
    first = [("while", [A.while_(B("<", V("a"), L(5)), A.block([inc_a])), A.ret(V("a"))]),
             ("do", [A.do_(A.block([inc_a]), B("<", V("a"), L(5))), A.ret(V("a"))]),
             ("for", [A.for_(None, B("<", V("a"), L(5)), A.asg(V("a"), B("+", V("a"), L(1))), A.block([A.estmt(A.asg(V("g"), B("+", V("g"), V("a"))))])), A.ret(B("+", V("a"), V("g")))]),
             ("while-nested", [A.while_(B("<", V("a"), L(5)), A.block([A.while_(B("<", V("g"), L(4)), A.block([A.estmt(A.asg(V("g"), B("+", V("g"), L(1))))])), inc_a])), A.ret(B("+", V("a"), V("g")))])]
    items += [(f"loopfirst-{nm}", A.prog([("g", A.INT)], [A.func("f", [("a", A.INT)], A.INT, A.block(body), True)]),
               [({"a": A.enc(a, A.INT)}, {"g": A.enc(2, A.INT)}) for a in (1, 9)]) for nm, body in first]
    # ++ on a float variable next to the literal 1.0 (two constants that compare equal), entered and not entered
    items.append(("floatinc", A.prog([], [A.func("f", [("a", A.FLOAT)], A.FLOAT, A.block([
        A.if_(B(">", V("a"), A.lit_f(10, 0)), A.block([A.estmt(A.inc("a", "+", False)), A.estmt(A.inc("a", "-", True)), A.estmt(A.inc("a", "+", True))])),
        A.ret(B("+", B("+", V("a"), A.lit_f(1, 0)), L(1)))]), True)]), [({"a": A.enc(v, A.FLOAT)}, {}) for v in (12.0, 0.5)]))
    # a module with an import (given as text: the language semantics of the reference has no imports); lib.nslir is stored next to it
    scratch = str(ctx.scratch / "c17")
    os.makedirs(scratch, exist_ok=True)
    open(os.path.join(scratch, "lib.nsl"), "w").write("export function sq(int a) -> int\n{\n  return a * a;\n}\nexport function half(float a) -> float\n{\n  return a * 0.5;\n}\n")
    p = subprocess.run([sys.executable, str(ctx.repo / "nslc.py"), "lib.nsl", "-o", "lib.nslir"], cwd=scratch, capture_output=True, text=True, env=dict(os.environ, PYTHONPATH=str(ctx.repo)))
    if not os.path.exists(os.path.join(scratch, "lib.nslir")):
        raise common.Machinery("could not store lib.nslir: " + (p.stdout + p.stderr)[-200:])
    os.chdir(scratch)           # imports are resolved relative to the working directory
    items.append(("imports", 'import "lib";\nexport function f(int a) -> int\n{\n  if (a > 2)\n  {\n    return sq(a) + 1;\n  }\n  return a;\n}\n', [({"a": A.enc(v, A.INT)}, {}) for v in (5, 1)]))
    items.append(("imports2", 'import "lib";\nexport function f(float a) -> float\n{\n  float r = half(a);\n  return r + sq(3);\n}\n', [({"a": A.enc(v, A.FLOAT)}, {}) for v in (4.0, 0.5)]))
    jobs = [(items[i:i + 12], str(ctx.repo), str(common.VERIF / "harness"), scratch) for i in range(0, len(items), 12)]
    with mp.Pool(16) as pool:
        recs = [r for part in pool.map(work, jobs) for r in part]
    # NslSem on every case (shared by both optimisation levels)
    progs, cases, seen = [], [], {}
    for r in recs:
        base = r["id"].rsplit("-", 1)[0]
        if base in seen:
            continue
        seen[base] = True
        if isinstance(r["prog"], str):
            continue                        # given as text: not run by NslSem
        progs.append(r["prog"])
        for j, (a, gl) in enumerate(r["inputs"]):
            cases.append({"id": f"{base}#{j}", "p": len(progs), "entry": "f", "args": a, "globals": gl})
    sem = {}
    for lo in range(0, len(cases), 3000):
        sem.update(semrun.run_sem(ctx, progs, cases[lo:lo + 3000]))
    # IRWellFormed on the reloaded modules
    fns = []
    for r in recs:
        if "loaded" in r and "proj" in r["loaded"]:
            table = r["loaded"].get("table") or [{"name": f["name"], "argc": f["argc"]} for f in r["loaded"]["proj"]["funcs"]]
            fns += [{"id": r["id"] + "/" + f["name"], "fn": f, "table": table} for f in r["loaded"]["proj"]["funcs"]]
    wf_bad = {}
    for lo in range(0, len(fns), 4000):
        path = ctx.tmp("irwf-batch.json")
        path.write_text(json.dumps(fns[lo:lo + 4000]))
        res = ctx.tlc("IRWellFormed", "INIT Init\nNEXT Next\nVIEW View\nINVARIANT Report\nCHECK_DEADLOCK FALSE\n", env={"BATCH": str(path)}, timeout=3000)
        for rec in res.records:
            if rec["kind"] == "undef" or not (rec["unique"] and rec["operands"] and rec["targets"] and rec["calls"]):
                wf_bad.setdefault(rec["id"].rsplit("/", 1)[0], rec)
    counts = {}
    nontrivial = 0
    stored = 0
    for r in recs:
        base = {"id": r["id"], "source": r["src"], "optimize": r["opt"]}
        if r["st"] != "ok":
            counts["not-accepted"] = counts.get("not-accepted", 0) + 1
            continue
        if r.get("store_rc") != 0:
            ctx.violation("store-fails", f"nslc.py -o fails for a program Compile accepts: {r.get('store_out')}", base)
            continue
        if "loaded" not in r:
            raise common.Machinery(f"loader process gave no answer for {r['id']}: {r.get('loader_crash')}")
        ld = r["loaded"]
        stored += 1
        if "error" in ld:
            ctx.violation("load-fails:" + ld["error"].split(":")[0], f"the stored module cannot be loaded: {ld['error']}", base)
            continue
        if ld["listing"] != r["listing"]:
            a, b = r["listing"].splitlines(), ld["listing"].splitlines()
            d = next((i for i, (x, y) in enumerate(zip(a, b)) if x != y), min(len(a), len(b)))
            ctx.violation("listing-differs", f"line {d + 1} of the listing: compiled `{a[d] if d < len(a) else ''}`, reloaded `{b[d] if d < len(b) else ''}`", base)
            continue
        if ld.get("listing_same_name") != r["listing"]:
            ctx.violation("stale-module-under-reused-name", "the module file copied to a name that earlier modules of the same process were stored under loads as something else than what the file holds "
                          f"(first differing line: {next((y for x, y in zip(r['listing'].splitlines(), (ld.get('listing_same_name') or '').splitlines()) if x != y), '?')})", base)
            continue
        if observable(ld["proj"]) != observable(json.loads(json.dumps(r["proj"]))):
            ctx.violation("object-graph-differs", "the reloaded module lists identically but its instructions / operands / constants / types differ from the compiled module", base)
            continue
        if r["id"] in wf_bad:
            ctx.violation("reloaded-ill-formed", f"the reloaded module is not a well-formed IR module: {wf_bad[r['id']]}", base)
            continue
        okall = True
        for j, ((a, gl), o0, o1) in enumerate(zip(r["inputs"], r["runs"], ld["runs"])):
            case = dict(base, args={k: A.dec(v) for k, v in a.items()}, globals_before={k: A.dec(v) for k, v in gl.items()},
                        compiled={k: o0.get(k) for k in ("ok", "ret_enc", "exc", "globals_enc")}, reloaded={k: o1.get(k) for k in ("ok", "ret_enc", "exc", "msg", "globals_enc")})
            if o0.get("fuel") or o1.get("fuel"):
                continue
            if (o0["ok"], o0["ret_enc"], o0["globals_enc"], o0.get("exc")) != (o1["ok"], o1["ret_enc"], o1["globals_enc"], o1.get("exc")):
                ctx.violation("behaviour-differs", f"compiled module: {o0['ret_enc'] if o0['ok'] else o0['exc']}; reloaded module: {o1['ret_enc'] if o1['ok'] else str(o1['exc']) + ': ' + str(o1.get('msg'))}", case)
                okall = False
                break
            s = sem.get(f"{r['id'].rsplit('-', 1)[0]}#{j}")
            if s is None:
                continue
            kind, detail = semrun.judge(s, {"ok": o0["ok"], "ret": o0["ret"], "globals": o0["globals"] or {}, "exc": o0.get("exc"), "msg": o0.get("msg"), "where": o0.get("where"), "fuel": o0.get("fuel"), "steps": o0.get("steps")})
            counts["sem-" + kind] = counts.get("sem-" + kind, 0) + 1
        if okall:
            counts["reload-identical"] = counts.get("reload-identical", 0) + 1
            if len(r["listing"].splitlines()) > 25:
                nontrivial += 1
    if stored == 0:
        raise common.Machinery("vacuous run: nothing stored")
    samples = [{"source": r["src"], "listing_head": r["listing"].splitlines()[:8]} for r in recs if r["st"] == "ok"][:2]
    return common.finish(
        ctx, level="model_checking", evaluations=stored, distinct_nontrivial=nontrivial,
        rule=f"{n} seeded programs (int and uint mixed, structs, arrays, calls, vectors) + {len(fam[::3])} optimiser-family programs x 2 optimisation levels: compiled in process 1 "
             "(reference), stored by `nslc.py -o` in process 2, loaded by FilesystemModuleLoader in process 3 (from its own path - the optimised module is stored as <stem>.O1 next to the unoptimised <stem>.nslir - and from one path that all modules of that process are copied to in turn); four functions whose first statement is a loop; listing, projection and VM results on 2 inputs compared; "
             "reloaded functions checked by IRWellFormed (TLC, all paths); results judged against NslSem (TLC). distinct_nontrivial = identical reloads with more than 25 listing lines.",
        samples=samples, traces_validated=counts.get("reload-identical", 0),
        assumptions=["identical behaviour = identical repr of the returned value and of the globals, identical failure class",
                     "the projection reads public properties only; object identity and parent links are covered as far as the VM and the printer depend on them"],
        extra={"outcome_counts": counts, "modules_stored": stored})
