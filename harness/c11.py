"""C11 - break and continue are accepted exactly inside loops, and refer to the innermost loop.

Binding (A) + refinement: spec/MC_C11.tla enumerates every statement tree to a depth with
break / continue / plain statements at the leaves, renders it as a program, decides
acceptance with NslStatic!FlowOk (cross-checked against a path-based formulation) and runs
the language semantics NslSem on it for two inputs.  This driver prints each program as NSL
text, compiles it with the real compiler at both optimisation levels and compares
accept/reject; accepted programs are executed on the real VM and the returned value is
compared with the one the semantics prescribes (every plain statement leaves a trace of its
position in the result, so a jump to the wrong loop changes the value).
"""
import multiprocessing as mp

import common
import nslast as A
import semrun
from common import time_limit, CaseTimeout


def work(job):
    out = []
    for key, recs in job:
        prog = [r for r in recs if r["a"] == 2][0]["prog"]
        ok = recs[0]["ok"]
        src = A.pp(prog)
        case = {"tree": key, "source": src, "language_accepts": ok}
        for opt in (False, True):
            c2 = dict(case, optimize=opt)
            try:
                with time_limit(120):
                    st, r, info = common.compile_traced(src, {"optimize": opt})
            except CaseTimeout:
                out.append(("compile-timeout", "compilation did not finish in 120 s", c2))
                continue
            if not info["hook_ok"]:
                out.append(("HOOK", None, None))
            if st == "ok" and not ok:
                out.append(("accepts-misplaced-jump", "program with a break/continue outside any loop is accepted", c2))
                continue
            if st != "ok" and ok:
                why = info["failed_pass"] or ":".join(str(r).split(":")[:2])
                out.append((f"rejects-legal-program:{why}", f"all break/continue statements are inside loops, yet the compiler refuses the program ({str(r)[:70]}; failed pass: {info['failed_pass']})", c2))
                continue
            if st != "ok":
                out.append((None, "ok-reject:" + (info["failed_pass"] or "crash:" + ":".join(str(r).split(":")[:2])), None))
                continue
            out.append((None, "ok-accept", None))
            program = A.link(r)
            for rec in recs:
                obs = A.run_vm(program, "f", {"a": rec["a"]}, {}, budget=100000)
                kind, detail = semrun.judge(rec, obs)
                c3 = dict(c2, a=rec["a"], reference={k: rec[k] for k in ("status", "ret", "steps")})
                if kind in ("agree", "unjudged", "defined-fail"):
                    out.append((None, "run-" + kind, None))
                else:
                    out.append(("run-" + kind, f"a={rec['a']}: {detail}", c3))
    return out


def run(ctx, args):
    depth = 3 if ctx.tier == "quick" else 4
    cfg = (f"CONSTANTS Depth = {depth}\nINIT Init\nNEXT Next\nINVARIANT FormulationsAgree\nINVARIANT AcceptedRuns\n"
           "INVARIANT RejectedStuck\nINVARIANT Finished\nINVARIANT Report\nPROPERTY FrameIsolation\nCHECK_DEADLOCK FALSE\n")
    res = ctx.tlc("MC_C11", cfg, timeout=6000)
    bykey = {}
    for r in res.records:
        bykey.setdefault(r["key"], []).append(r)
    if not bykey or any(len(v) != 2 for v in bykey.values()):
        raise common.Machinery("expected two cases (inputs 2 and 3) per enumerated tree")
    items = sorted(bykey.items())
    jobs = [items[i:i + 40] for i in range(0, len(items), 40)]
    with mp.Pool(16) as pool:
        results = pool.map(work, jobs)
    counts = {}
    evals = 0
    hook_missing = 0
    for out in results:
        for key, what, case in out:
            if key == "HOOK":
                hook_missing += 1
                continue
            evals += 1
            if key is None:
                counts[what] = counts.get(what, 0) + 1
            else:
                ctx.violation(key, what, case)
    if hook_missing:
        raise common.Machinery(f"compiler hook silent in {hook_missing} compilations (NSL_VERIF hook missing from the tree under test?)")
    if not ctx.violations:
        for k in ("ok-accept", "run-agree"):
            if counts.get(k, 0) == 0:
                raise common.Machinery(f"vacuous run: no {k} outcome")
        if not any(k.startswith("ok-reject") for k in counts):
            raise common.Machinery("vacuous run: nothing rejected")
    accepted = sum(1 for k, v in items if v[0]["ok"])
    jumps = sum(1 for k, v in items if '"b"' in k or '"c"' in k)
    samples = []
    for k, v in items[7::max(1, len(items) // 4)][:4]:
        p = [r for r in v if r["a"] == 2][0]
        samples.append({"source": A.pp(p["prog"]), "language_accepts": p["ok"],
                        "reference_runs": [{"a": r["a"], "status": r["status"], "ret": r["ret"]} for r in v]})
    return common.finish(
        ctx, level="model_checking", evaluations=evals, distinct_nontrivial=jumps,
        rule=f"TLC enumerates all {len(items)} statement trees of depth <= {depth} (7 wrappers: block, if, if/else-then, if/else-else, for, while, do; "
             "sequences leaf;tree and tree;leaf; leaves plain/break/continue), renders each as a program, decides acceptance (FlowOk, cross-checked with a "
             "path-based formulation) and runs NslSem for inputs 2 and 3. Each program is compiled at both optimisation levels (accept/reject compared) "
             "and, when accepted, executed on the VM for both inputs (value compared). distinct_nontrivial = trees containing at least one break or continue.",
        samples=samples, exhaustive=True, traces_validated=counts.get("run-agree", 0),
        assumptions=["rejection = Compile returns None or raises (an internal error in lowering counts as a rejection, as the statement's observation point says)",
                     "loops are bounded by construction (two iterations each); the VM gets a step budget of 100000 instructions"],
        extra={"outcome_counts": counts, "trees": len(items), "accepted_by_language": accepted})
