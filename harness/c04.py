"""C04 - vectors and matrices are values: component operations, swizzles, copies.

Refinement check against spec/NslSem.tla (run by TLC through MC_Sem) on exhaustive families:
  * every swizzle READ mask (any order, any repetition) of length 1-4 over the components a
    vector of size 2-4 has, in the xyzw spelling and (a slice) in the rgba spelling;
  * every non-repeating swizzle WRITE mask, each also as a copy test (write the copy, return
    the source);
  * every constructor partition of 2-4 components into scalars and smaller vectors;
  * row and element selection of float3x3 / float4x4 with constant and dynamic indices,
    nested writes m[i][j] = v, s.v.y = v, a[i].zx = w, each also as a copy test;
  * component-wise + and -, the six comparisons, vector / matrix times and divided by a
    scalar (scalar on either side for *), matrix sum and product, matrix times vector;
plus seeded random programs with vector parameters, locals and element / swizzle writes.
Inputs have pairwise distinct components, so a wrong index shows.  The value the language
prescribes comes from NslSem; the real compiler + VM must return it exactly.
"""
import itertools
import multiprocessing as mp

import common
import nslast as A
import nslgen
import semrun
from nslast import INT, FLOAT

V, L, B = A.var, A.lit_i, A.bin_
SW = "xyzw"


def vt(n, c="float"):
    return A.vec(c, n)


def rt_of(c, n):
    return {"k": c} if n == 1 else A.vec(c, n)


def family(quick):
    out = []

    def add(name, params, ret, stmts, structs=()):
        out.append((name, A.prog([], [A.func("f", params, ret, A.block(stmts), True)], structs)))
    # ---- swizzle reads
    for n in (2, 3, 4):
        for ln in (1, 2, 3, 4):
            for m in itertools.product(range(n), repeat=ln):
                add(f"sr{n}:{''.join(SW[i] for i in m)}", [("v", vt(n))], rt_of("float", ln), [A.ret(A.swz(V("v"), m))])
        for m in itertools.product(range(n), repeat=2):
            add(f"sri{n}:{''.join(SW[i] for i in m)}", [("v", vt(n, "int"))], rt_of("int", 2), [A.ret(A.swz(V("v"), m))])
    # ---- swizzle writes and copy tests
    for n in (2, 3, 4):
        for ln in range(1, n + 1):
            for m in itertools.permutations(range(n), ln):
                w = V("w")
                wt = rt_of("float", ln)
                add(f"sw{n}:{''.join(SW[i] for i in m)}", [("v", vt(n)), ("w", wt)], vt(n), [A.estmt(A.asg(A.swz(V("v"), m), w)), A.ret(V("v"))])
                add(f"swc{n}:{''.join(SW[i] for i in m)}", [("v", vt(n)), ("w", wt)], vt(n),
                    [A.decl("u", vt(n), V("v")), A.estmt(A.asg(A.swz(V("u"), m), w)), A.ret(B("+", V("v"), B("*", V("u"), L(100))))])
    # ---- a vector written through a swizzle with (a permutation of) ITSELF as the source: the source is a value, read completely before the write
    for n in (2, 3, 4):
        for m in itertools.permutations(range(n), n):
            nm = ''.join(SW[i] for i in m)
            add(f"swself{n}:{nm}", [("v", vt(n))], vt(n), [A.estmt(A.asg(A.swz(V("v"), m), V("v"))), A.ret(V("v"))])
            add(f"swselfc{n}:{nm}", [("v", vt(n))], vt(n), [A.decl("t", vt(n), V("v")), A.estmt(A.asg(A.swz(V("v"), m), V("t"))), A.ret(B("+", V("v"), B("*", V("t"), L(100))))])
        for ln in range(2, n + 1):
            for m in list(itertools.permutations(range(n), ln))[::2]:
                nm = ''.join(SW[i] for i in m)
                add(f"swselfsw{n}:{nm}", [("v", vt(n))], vt(n), [A.estmt(A.asg(A.swz(V("v"), m), A.swz(V("v"), tuple(reversed(m))))), A.ret(V("v"))])
    # ---- nested selections as assignment targets: v.zyx.xy = w writes v.z and v.y; v.zyx[0] = x writes v.z
    for n in (3, 4):
        for k1 in (2, 3):
            for m1 in itertools.permutations(range(n), k1):
                for k2 in range(1, k1 + 1):
                    for m2 in itertools.permutations(range(k1), k2):
                        nm = ''.join(SW[i] for i in m1) + "." + ''.join(SW[i] for i in m2)
                        add(f"swn{n}:{nm}", [("v", vt(n)), ("w", rt_of("float", k2))], vt(n), [A.estmt(A.asg(A.swz(A.swz(V("v"), m1), m2), V("w"))), A.ret(V("v"))])
                add(f"swni{n}:{''.join(SW[i] for i in m1)}", [("v", vt(n)), ("x", FLOAT)], vt(n), [A.estmt(A.asg(A.idx(A.swz(V("v"), m1), L(k1 - 1)), V("x"))), A.ret(V("v"))])
    for m1, m2 in (((2, 1, 0), (0, 1)), ((1, 2), (1,)), ((0, 2, 1), (2, 0))):
        mt3 = A.mat("float", 3, 3)
        add(f"swnm:{''.join(SW[i] for i in m1)}.{''.join(SW[i] for i in m2)}", [("m", mt3), ("w", rt_of("float", len(m2)))], mt3,
            [A.estmt(A.asg(A.swz(A.swz(A.idx(V("m"), L(1)), m1), m2), V("w"))), A.ret(V("m"))])
        add(f"swnc:{''.join(SW[i] for i in m1)}.{''.join(SW[i] for i in m2)}", [("v", vt(3)), ("w", rt_of("float", len(m2)))], vt(3),
            [A.estmt(A.casg("*", A.swz(A.swz(V("v"), m1), m2), V("w"))), A.ret(V("v"))])
    # ---- a callee that writes into its vector / matrix parameter: the caller's variable is a different one
    mt3 = A.mat("float", 3, 3)
    callee_writes = [("melem", mt3, [A.estmt(A.asg(A.idx(A.idx(V("q"), L(1)), L(2)), V("x")))], A.idx(A.idx(V("q"), L(1)), L(2))),
                     ("mrow", mt3, [A.estmt(A.asg(A.idx(V("q"), L(0)), A.cons(vt(3), [V("x"), V("x"), L(1)])))], A.idx(A.idx(V("q"), L(0)), L(0))),
                     ("mdyn", mt3, [A.estmt(A.asg(A.idx(A.idx(V("q"), V("k")), V("k")), V("x")))], A.idx(A.idx(V("q"), L(1)), L(1))),
                     ("vidx", vt(4), [A.estmt(A.asg(A.idx(V("q"), L(2)), V("x")))], A.idx(V("q"), L(2))),
                     ("vswz", vt(4), [A.estmt(A.asg(A.swz(V("q"), (3, 0)), A.cons(vt(2), [V("x"), V("x")])))], A.idx(V("q"), L(3))),
                     ("vwhole", vt(3), [A.estmt(A.asg(V("q"), B("*", V("q"), V("x"))))], A.idx(V("q"), L(0)))]
    for nm, t, stmts, read in callee_writes:
        callee = A.func("h", [("q", t), ("x", FLOAT), ("k", INT)], FLOAT, A.block(stmts + [A.ret(read)]))
        for shape in ("param", "local", "twice"):
            if shape == "param":
                body = [A.decl("r", FLOAT, A.call("h", [V("a"), V("x"), L(1)])), A.ret(V("a"))]
            elif shape == "local":
                body = [A.decl("c", t, V("a")), A.decl("r", FLOAT, A.call("h", [V("c"), V("x"), L(1)])), A.ret(B("+", V("c"), V("a")))]
            else:
                body = [A.decl("r", FLOAT, A.call("h", [V("a"), V("x"), L(1)])), A.decl("r2", FLOAT, A.call("h", [V("a"), V("r"), L(2)])), A.ret(V("a"))]
            out.append((f"callee-{nm}:{shape}", A.prog([], [callee, A.func("f", [("a", t), ("x", FLOAT)], t, A.block(body), True)])))
    # ---- constructors: partitions of n components into scalars (1) and smaller vectors
    def parts(n):
        if n == 0:
            yield ()
            return
        for k in range(1, min(n, 3) + 1):
            for rest in parts(n - k):
                yield (k,) + rest
    for n in (2, 3, 4):
        for p in parts(n):
            if p == (n,):
                continue
            for comp in ("float", "int"):
                params = [(f"a{j}", rt_of(comp if j % 2 == 0 else "float", k)) for j, k in enumerate(p)]
                add(f"cons{n}:{p}:{comp}", params, vt(n), [A.ret(A.cons(vt(n), [V(nm) for nm, _ in params]))])
                # ... and an int vector from float parts: every component is converted to the component type of the result
                add(f"consi{n}:{p}:{comp}", params, vt(n, "int"), [A.ret(A.cons(vt(n, "int"), [V(nm) for nm, _ in params]))])
                # constructing a value must leave the vectors it was built from unchanged (and usable afterwards)
                for j, k in enumerate(p):
                    if k > 1:
                        add(f"consarg{n}:{p}:{comp}:{j}", params, params[j][1],
                            [A.decl("r", vt(n), A.cons(vt(n), [V(nm) for nm, _ in params])), A.decl("q", vt(n), A.cons(vt(n), [V(nm) for nm, _ in params])),
                             A.ret(B("+", V(params[j][0]), V(params[j][0])))])
    # ---- matrices: rows, elements, nested writes, copies
    for n in (3, 4):
        mt = A.mat("float", n, n)
        for i in range(n):
            add(f"mrow{n}:{i}", [("m", mt)], vt(n), [A.ret(A.idx(V("m"), L(i)))])
            for j in range(n):
                add(f"mel{n}:{i}{j}", [("m", mt)], FLOAT, [A.ret(A.idx(A.idx(V("m"), L(i)), L(j)))])
                add(f"mwr{n}:{i}{j}", [("m", mt), ("x", FLOAT)], mt, [A.estmt(A.asg(A.idx(A.idx(V("m"), L(i)), L(j)), V("x"))), A.ret(V("m"))])
            add(f"mrw{n}:{i}", [("m", mt), ("r", vt(n))], mt, [A.estmt(A.asg(A.idx(V("m"), L(i)), V("r"))), A.ret(V("m"))])
        add(f"mdyn{n}", [("m", mt), ("i", INT), ("j", INT)], FLOAT, [A.ret(A.idx(A.idx(V("m"), V("i")), V("j")))])
        add(f"mdynw{n}", [("m", mt), ("i", INT), ("j", INT), ("x", FLOAT)], mt, [A.estmt(A.asg(A.idx(A.idx(V("m"), V("i")), V("j")), V("x"))), A.ret(V("m"))])
        add(f"mcopy{n}", [("m", mt), ("x", FLOAT)], mt, [A.decl("u", mt, V("m")), A.estmt(A.asg(A.idx(A.idx(V("u"), L(1)), L(2)), V("x"))), A.ret(B("+", V("m"), B("*", V("u"), L(100))))])
        # arithmetic
        add(f"madd{n}", [("m", mt), ("k", mt)], mt, [A.ret(B("+", V("m"), V("k")))])
        add(f"msub{n}", [("m", mt), ("k", mt)], mt, [A.ret(B("-", V("m"), V("k")))])
        add(f"mmul{n}", [("m", mt), ("k", mt)], mt, [A.ret(B("*", V("m"), V("k")))])
        add(f"mscal{n}", [("m", mt), ("x", FLOAT)], mt, [A.ret(B("*", V("m"), V("x")))])
        add(f"mdiv{n}", [("m", mt)], mt, [A.ret(B("/", V("m"), A.lit_f(2, 0)))])
        add(f"scalm{n}", [("m", mt), ("x", FLOAT)], mt, [A.ret(B("*", V("x"), V("m")))])
        add(f"mvec{n}", [("m", mt), ("v", vt(n))], vt(n), [A.ret(B("*", V("m"), V("v")))])
    # ---- vectors: element access, nested aggregates, arithmetic
    s0 = A.struct("S0", [("v", vt(3)), ("k", INT)])
    for j in range(3):
        add(f"sv:{j}", [("s", s0), ("x", FLOAT)], vt(3), [A.estmt(A.asg(A.swz(A.mem(V("s"), "v"), [j]), V("x"))), A.ret(A.mem(V("s"), "v"))], [s0])
    for i in range(2):
        add(f"av:{i}", [("x", vt(2))], vt(3), [A.decl("a", A.arr(vt(3), [2])), A.estmt(A.asg(A.swz(A.idx(V("a"), L(i)), [2, 0]), V("x"))),
                                              A.ret(B("+", A.idx(V("a"), L(0)), B("*", A.idx(V("a"), L(1)), L(10))))])
    for n in (2, 3, 4):
        for comp in ("float", "int"):
            t = vt(n, comp)
            for i in range(n):
                add(f"vel{n}{comp}:{i}", [("v", t)], {"k": comp}, [A.ret(A.idx(V("v"), L(i)))])
                add(f"vwr{n}{comp}:{i}", [("v", t), ("x", {"k": comp})], t, [A.estmt(A.asg(A.idx(V("v"), L(i)), V("x"))), A.ret(V("v"))])
            add(f"vdyn{n}{comp}", [("v", t), ("i", INT)], {"k": comp}, [A.ret(A.idx(V("v"), V("i")))])
            add(f"vdynw{n}{comp}", [("v", t), ("i", INT), ("x", {"k": comp})], t, [A.estmt(A.asg(A.idx(V("v"), V("i")), V("x"))), A.ret(V("v"))])
            for op in ("+", "-"):
                add(f"v{op}{n}{comp}", [("v", t), ("w", t)], t, [A.ret(B(op, V("v"), V("w")))])
            for op in ("<", "<=", ">", ">=", "==", "!="):
                add(f"v{op}{n}{comp}", [("v", t), ("w", t)], vt(n, "int"), [A.ret(B(op, V("v"), V("w")))])
            add(f"vs*{n}{comp}", [("v", t), ("x", {"k": comp})], t, [A.ret(B("*", V("v"), V("x")))])
            add(f"sv*{n}{comp}", [("v", t), ("x", {"k": comp})], t, [A.ret(B("*", V("x"), V("v")))])
            add(f"vs/{n}{comp}", [("v", t)], t, [A.ret(B("/", V("v"), L(2) if comp == "int" else A.lit_f(2, 0)))])
            other = "int" if comp == "float" else "float"
            # mixed component types: the vector is promoted to the wider component type (int vector / float -> float vector)
            add(f"vsm/{n}{comp}", [("v", t)], vt(n), [A.ret(B("/", V("v"), A.lit_f(2, 0) if comp == "int" else L(2)))])
            add(f"vsm*{n}{comp}", [("v", t), ("x", {"k": other})], vt(n), [A.ret(B("*", V("v"), V("x")))])
            add(f"svm*{n}{comp}", [("v", t), ("x", {"k": other})], vt(n), [A.ret(B("*", V("x"), V("v")))])
            add(f"vsmp/{n}{comp}", [("v", t), ("x", {"k": other})], vt(n), [A.ret(B("/", V("v"), B("-", V("x"), V("x") if False else (L(0) if other == "int" else A.lit_f(0, 0)))))])
            if comp == "int":
                shifted = B("-", V("v"), A.cons(t, [L(10)] * n))           # negative components
                add(f"vsneg/{n}", [("v", t)], t, [A.ret(B("/", shifted, L(2)))])
                add(f"vsnegm/{n}", [("v", t)], t, [A.ret(B("/", shifted, A.lit_i(-2)))])
            add(f"vcopy{n}{comp}", [("v", t), ("x", {"k": comp})], t, [A.decl("u", t, V("v")), A.estmt(A.asg(A.idx(V("u"), L(1)), V("x"))), A.ret(B("+", V("v"), B("*", V("u"), L(100))))])
        add(f"vmix{n}", [("v", vt(n)), ("w", vt(n, "int"))], vt(n), [A.ret(B("+", V("v"), V("w")))])
    return out


def meta_family():
    """'component-wise as written': an operation on a whole vector / matrix and the same operation written out component by component
    are the same computation, so the VM must return identical values for them - also where the result is not exactly representable
    (divisors 3, 7, 10; negative components).  -> [(name, source A, source B, [inputs])]"""
    out = []
    comps = "xyzw"
    for n in (2, 3, 4):
        fv = f"float{n}"
        iv = f"int{n}"
        fvals = [[5.0, 1.0, -7.0, 0.3][:n], [1e10, -2.5, 1.0 / 3.0, 9.0][:n]]
        ivals = [[-7, 7, -1, 9][:n], [5, -5, 0, -8][:n]]
        for op in ("/", "*"):
            for s_t, v_t, vals, svals in (("float", fv, fvals, [3.0, 7.0, 10.0, -3.0]), ("int", iv, ivals, [2, 3, -2, 7])):
                a = f"export function f({v_t} v, {s_t} s) -> {v_t}\n{{\n  return v {op} s;\n}}\n"
                b = f"export function f({v_t} v, {s_t} s) -> {v_t}\n{{\n  return {v_t}(" + ", ".join(f"v.{comps[i]} {op} s" for i in range(n)) + ");\n}\n"
                out.append((f"v{op}s:{v_t}", a, b, [{"v": v, "s": sv} for v in vals for sv in svals]))
            a = f"export function f({fv} v, float s) -> {fv}\n{{\n  return s * v;\n}}\n"
            b = f"export function f({fv} v, float s) -> {fv}\n{{\n  return {fv}(" + ", ".join(f"s * v.{comps[i]}" for i in range(n)) + ");\n}\n"
            out.append((f"s*v:{fv}", a, b, [{"v": v, "s": sv} for v in fvals for sv in (3.0, 0.1)]))
        for op in ("+", "-"):
            a = f"export function f({fv} v, {fv} w) -> {fv}\n{{\n  return v {op} w;\n}}\n"
            b = f"export function f({fv} v, {fv} w) -> {fv}\n{{\n  return {fv}(" + ", ".join(f"v.{comps[i]} {op} w.{comps[i]}" for i in range(n)) + ");\n}\n"
            out.append((f"v{op}w:{fv}", a, b, [{"v": fvals[0], "w": fvals[1]}, {"v": [0.1] * n, "w": [0.2] * n}]))
    for n in (3, 4):
        mt, fv = f"float{n}x{n}", f"float{n}"
        m1 = [[(i * n + j) * 1.5 - 4.0 + (0.1 if (i + j) % 3 == 0 else 0.0) for j in range(n)] for i in range(n)]
        m2 = [[1.0 / (1 + i + j) for j in range(n)] for i in range(n)]
        for op in ("/", "*"):
            a = f"export function f({mt} m, float s) -> {mt}\n{{\n  return m {op} s;\n}}\n"
            b = f"export function f({mt} m, float s) -> {mt}\n{{\n  return {mt}(" + ", ".join(f"m[{i}] {op} s" for i in range(n)) + ");\n}\n"
            c = f"export function f({mt} m, float s) -> {mt}\n{{\n  return {mt}(" + ", ".join(f"{fv}(" + ", ".join(f"m[{i}][{j}] {op} s" for j in range(n)) + ")" for i in range(n)) + ");\n}\n"
            ins = [{"m": m, "s": sv} for m in (m1, m2) for sv in (3.0, 7.0, 10.0, 2.0)]
            out.append((f"m{op}s-rows:{mt}", a, b, ins))
            out.append((f"m{op}s-elements:{mt}", a, c, ins))
        # (matrix x vector and matrix products involve sums, whose association no statement fixes: not compared bit for bit)
    return out


def meta_work(items):
    import copy
    out = []
    for name, a, b, inputs in items:
        for opt in (False, True):
            vms = []
            for src in (a, b):
                st, r = common.compile_source(src, {"optimize": opt})
                vms.append(common.link_vm(r) if st == "ok" else None)
            if vms[0] is None or vms[1] is None:
                out.append((None, "meta-not-compiled", None))          # acceptance is judged by the family above / by C09
                continue
            for ins in inputs:
                res = []
                for vm in vms:
                    try:
                        with common.quiet():
                            res.append(repr(vm.Invoke("f", **copy.deepcopy(ins))))
                    except BaseException as e:  # noqa
                        res.append("raise:" + type(e).__name__)
                if res[0] != res[1] and not (res[0].startswith("raise") and res[1].startswith("raise")):
                    out.append((f"componentwise-differs:{name.split(':')[0]}", f"{name} [{'O1' if opt else 'O0'}] with {ins}: the operation on the whole value gives {res[0]}, written out component by component {res[1]}",
                                {"whole": a, "written_out": b, "inputs": ins, "optimize": opt}))
                    break
                out.append((None, "meta-agree", None))
    return out


def inputs_for(prog, seed):
    """distinct dyadic components so that any permutation error shows"""
    f = prog["funcs"][-1]
    out = []
    for rep in range(2):
        ctr = [rep * 3 + 1]

        def val(t):
            k = t["k"]
            if k == "int":
                ctr[0] += 1
                return ctr[0] % 3 if t.get("_idx") else ctr[0]
            if k == "float":
                ctr[0] += 1
                return ctr[0] + 0.5
            if k == "vec":
                return [val({"k": t["c"]}) for _ in range(t["n"])]
            if k == "mat":
                return [[val({"k": t["c"]}) for _ in range(t["n"])] for _ in range(t["r"])]
            if k == "struct":
                return {fl["n"]: val(fl["t"]) for fl in t["fields"]}
            raise ValueError(k)
        args = {}
        for p in f["params"]:
            if p["n"] in ("i", "j"):       # dynamic indices stay in range
                args[p["n"]] = A.enc((rep + (1 if p["n"] == "j" else 0)) % 3, INT)
            else:
                args[p["n"]] = A.enc(val(p["t"]), p["t"])
        out.append((args, {}))
    # two vector parameters of one type: also with some and with all components EQUAL (comparisons, differences)
    ps = {p["n"]: p["t"] for p in f["params"]}
    if set(ps) == {"v", "w"} and ps["v"] == ps["w"] and ps["v"]["k"] == "vec":
        base = [3 + j for j in range(ps["v"]["n"])] if ps["v"]["c"] == "int" else [2.5 + j for j in range(ps["v"]["n"])]
        for other in ([base[0] + 1] + base[1:], list(base), base[:-1] + [base[-1] - 1]):
            out.append(({"v": A.enc(base, ps["v"]), "w": A.enc(other, ps["w"])}, {}))
    return out


def work(items):
    out = []
    for name, prog, inputs in items:
        src = A.pp(prog)
        rec = {"name": name, "prog": prog, "src": src, "inputs": inputs, "levels": {}}
        for opt in (False, True):
            try:
                with common.time_limit(120):
                    st, r, info = common.compile_traced(src, {"optimize": opt})
            except common.CaseTimeout:
                st, r = "timeout", "timeout"
            lv = {"st": st, "why": None if st == "ok" else str(r)[:140], "runs": []}
            if st == "ok":
                program = A.link(r)
                for a, gl in inputs:
                    obs = A.run_vm(program, "f", {k: A.dec(v) for k, v in a.items()}, {k: A.dec(v) for k, v in gl.items()}, budget=200000)
                    obs["ret_repr"] = A.show_py(obs.get("ret"))
                    lv["runs"].append(obs)
            rec["levels"][opt] = lv
        out.append(rec)
    return out


def fam_class(name):
    """the family a case belongs to (for known-finding keys): the name up to the first digit / colon"""
    import re
    m = re.match(r"[a-z*/+<>=!-]+", name)
    return m.group(0) if m else name


def run(ctx, args):
    quick = ctx.tier == "quick"
    fam = [(n, p, inputs_for(p, 0)) for n, p in family(quick)]
    n = 200 if quick else 3000
    gen = []
    for i in range(n):
        g = nslgen.Gen(ctx.seed * 1000003 + i, dict(vectors=True, structs=False, arrays=False, maxstmts=5, depth=1, recursion=False))
        prog = g.program()
        gen.append((f"gen{i}", prog, [g.inputs(prog) for _ in range(2)]))
    items = fam + gen
    with mp.Pool(16) as pool:
        recs = [r for part in pool.map(work, [items[i:i + 40] for i in range(0, len(items), 40)]) for r in part]
    counts = {}
    with mp.Pool(16) as pool:
        mf = meta_family()
        for part in pool.map(meta_work, [mf[i:i + 4] for i in range(0, len(mf), 4)]):
            for key, what, case in part:
                if key is None:
                    counts[what] = counts.get(what, 0) + 1
                else:
                    ctx.violation(key, what, case)
    progs, cases = [], []
    for r in recs:
        progs.append(r["prog"])
        for j, (a, gl) in enumerate(r["inputs"]):
            cases.append({"id": f"{r['name']}#{j}", "p": len(progs), "entry": "f", "args": a, "globals": gl})
    sem = {}
    for lo in range(0, len(cases), 3000):
        sem.update(semrun.run_sem(ctx, progs, cases[lo:lo + 3000]))
    agree = 0
    nontriv = set()
    samples = []
    for r in recs:
        isfam = not r["name"].startswith("gen")
        cls = fam_class(r["name"]) if isfam else "generated"
        ref_status = {sem[f"{r['name']}#{j}"]["status"] for j in range(len(r["inputs"]))}
        for opt in (False, True):
            lv = r["levels"][opt]
            tag = "O1" if opt else "O0"
            base = {"source": r["src"], "case": r["name"], "optimize": opt}
            if lv["st"] != "ok":
                if "ill" in ref_status:
                    counts["rejected-ill-typed"] = counts.get("rejected-ill-typed", 0) + 1      # the language does not define the program either
                else:
                    ctx.violation(f"rejects:{cls}:{':'.join(str(lv['why']).split(':')[:2])}", f"{r['name']}: the compiler refuses a program the language defines ({lv['why']})", base)
                continue
            for j, ((a, gl), obs) in enumerate(zip(r["inputs"], lv["runs"])):
                s = sem[f"{r['name']}#{j}"]
                kind, detail = semrun.judge(s, obs)
                case = dict(base, args={k: A.dec(v) for k, v in a.items()}, reference={"status": s["status"], "ret": s["ret"]}, vm={k: obs.get(k) for k in ("ok", "ret_repr", "exc", "msg", "where")})
                if kind in ("agree", "unjudged", "defined-fail"):
                    counts[kind] = counts.get(kind, 0) + 1
                    if kind == "agree":
                        agree += 1
                        nontriv.add(r["name"])
                        if isfam and len(samples) < 4 and r["name"].startswith(("swc4", "mmul", "cons4")):
                            samples.append({"source": r["src"], "args": case["args"], "prescribed": semrun.show_spec(s["ret"]), "vm": obs["ret_repr"]})
                else:
                    key = f"{kind}:{cls}" + (f":{obs['exc']}" if kind == "vm-error" else "")
                    ctx.violation(key, f"{r['name']} [{tag}]: {detail}", case)
    if agree == 0 and not ctx.violations:
        raise common.Machinery("vacuous run")
    return common.finish(
        ctx, level="model_checking", evaluations=len(cases) * 2, distinct_nontrivial=len(nontriv),
        rule=f"{len(fam)} family programs (all swizzle read masks of length 1-4 on sizes 2-4, all non-repeating write masks with copy tests, all constructor partitions, "
             f"matrix rows/elements/nested writes/copies for 3x3 and 4x4, component-wise and scalar operations, matrix sum/product, matrix x vector) and {n} seeded programs, "
             "2 inputs with pairwise distinct components each, both optimisation levels; every case is one NslSem behaviour in TLC whose prescribed value the VM must return. "
             f"{len(meta_family())} pairs (an operation on the whole vector / matrix, the same written out component by component) must give identical VM values also for inexact quotients and negative components. "
             "distinct_nontrivial = programs with at least one agreeing judged run.",
        samples=samples or [{"note": "see family()"}], exhaustive=True, traces_validated=agree,
        assumptions=["programs the language itself leaves undefined (NslSem status ill) may be rejected", "5 and 5.0 are the same value"],
        extra={"outcome_counts": counts, "family_programs": len(fam)})


replay = common.replay_vm_case
