import importlib
import os
import sys
sys.path.insert(0, os.path.dirname(os.path.abspath(__file__)))
import common

def main():
    if len(sys.argv) < 2:
        sys.exit("usage: check <Cxx> [--tier quick|thorough] [--replay path] [--selftest]")
    prop = sys.argv[1].upper()
    try:
        mod = importlib.import_module(prop.lower())
    except ModuleNotFoundError as e:
        if e.name == prop.lower():
            print(f"no check for {prop}")
            sys.exit(2)
        raise
    common.main_wrapper(mod.run, prop, mod)

if __name__ == "__main__":
    main()
