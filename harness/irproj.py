"""Projection of a compiled IR module (nsl.LinearIR objects) onto plain data, reading public
properties only.  The projection is what spec/IRWellFormed.tla and spec/IRMachine.tla work on.

  module  {funcs: [function], globals: [{n, t}]}
  function {name, params: [{n, t}], ret: type, consts: [{ref, t, v}], blocks: [{ref, ins: [instr]}]}
  instr   {op, ref, t, uses: [ref...], ...}    operands are reference numbers;
          -1 = absent, -2 = the operand is not an IR value at all (malformed)
Types use the format of NslSem (k = int|uint|float|void|vec|mat|arr|struct).
"""
from fractions import Fraction


def tyj(t, L):
    if t is None:
        return {"k": "none"}
    if isinstance(t, L.IntegerType):
        return {"k": "uint" if t.Unsigned else "int"}
    if isinstance(t, L.FloatType):
        return {"k": "float"}
    if isinstance(t, L.VoidType):
        return {"k": "void"}
    if isinstance(t, L.VectorType):
        return {"k": "vec", "c": tyj(t.ElementType, L)["k"], "n": t.Size}
    if isinstance(t, L.MatrixType):
        return {"k": "mat", "c": tyj(t.ElementType, L)["k"], "r": t.RowCount, "n": t.ColumnCount}
    if isinstance(t, L.ArrayType):
        return {"k": "arr", "elem": tyj(t.ElementType, L), "dims": list(t.Size)}
    if isinstance(t, L.StructureType):
        return {"k": "struct", "name": t.Name, "fields": [{"n": n, "t": tyj(ft, L)} for n, ft in t.Fields.items()]}
    if isinstance(t, L.FunctionType):
        return {"k": "fn"}
    # front-end type objects (module.Globals holds nsl.types instances)
    name = getattr(t, "GetName", None)
    return {"k": "unknown", "repr": (name() if name else repr(t))[:40]}


def ref(v):
    if v is None:
        return -1
    r = getattr(v, "Reference", None)
    if isinstance(r, int) and not isinstance(v, (int, float, str)):
        return r
    return -2


def const_value(c, L):
    """constant -> tagged value of the specification (exact)"""
    v = c.Value
    t = tyj(c.Type, L)["k"]
    if isinstance(v, bool):
        v = int(v)
    if isinstance(v, float):
        fr = Fraction(v)
        e = fr.denominator.bit_length() - 1
        if fr.denominator == 2 ** e and abs(fr.numerator) < 2 ** 30 and e <= 20:
            return {"t": "float", "n": fr.numerator, "e": e}
        return {"t": "inexact", "r": repr(v)}
    if isinstance(v, int):
        if abs(v) >= 2 ** 30:
            return {"t": "big", "r": str(v)}
        if t == "float":
            return {"t": "float", "n": v, "e": 0}
        return {"t": "uint" if t == "uint" else "int", "v": v}
    return {"t": "other", "r": repr(v)[:40]}


def project_function(fn, L):
    consts = [{"ref": c.Reference, "t": tyj(c.Type, L), "v": const_value(c, L)} for c in fn.Constants]
    blocks = []
    for bb in fn.BasicBlocks:
        ins = []
        for i in bb.Instructions:
            d = {"op": i.OpCode.name, "ref": i.Reference if isinstance(i.Reference, int) else -2, "t": tyj(i.Type, L),
                 "cls": type(i).__name__, "uses": [], "tgt": [], "cond": False}
            # an instruction whose opcode says "store" has a stored operand, even if the object lost it (-1 = absent)
            is_store = i.OpCode.name in ("STORE", "STORE_ARRAY", "STORE_MEMBER", "VECTOR_SET", "MATRIX_SET")
            if isinstance(i, L.BinaryInstruction):
                d["uses"] = [ref(v) for v in i.Values]
            elif isinstance(i, L.BranchInstruction):
                d["tgt"] = [ref(i.TrueBlock)] + ([ref(i.FalseBlock)] if i.FalseBlock is not None else [])
                d["cond"] = i.Predicate is not None
                d["uses"] = [ref(i.Predicate)] if i.Predicate is not None else []
            elif isinstance(i, L.UnaryInstruction):
                d["uses"] = [ref(i.Value)]
            elif isinstance(i, L.ReturnInstruction):
                d["uses"] = [ref(i.Value)] if i.Value is not None else []
            elif isinstance(i, L.ConstructPrimitiveInstruction):
                d["uses"] = [ref(v) for v in i.Values]
            elif isinstance(i, L.MemberAccessInstruction):
                d["uses"] = [ref(i.Variable)] + ([ref(i.Store)] if (i.Store is not None or is_store) else [])
                d["member"] = i.Member
            elif isinstance(i, L.ShuffleInstruction):
                d["uses"] = [ref(i.First), ref(i.Second)]
                d["indices"] = list(i.Indices)
            elif isinstance(i, L.VariableAccessInstruction):
                d["uses"] = [ref(i.Store)] if (i.Store is not None or is_store) else []
                d["var"] = str(i.Variable)
                d["scope"] = i.Scope.name
            elif isinstance(i, L.CallInstruction):
                d["uses"] = [ref(a) for a in i.Arguments]
                d["callee"] = i.Function
            elif isinstance(i, L._IndexedAccessBase):
                d["uses"] = [ref(i.Array), ref(i.Index)] + ([ref(i.Store)] if (i.Store is not None or is_store) else [])
            elif isinstance(i, L.DeclareVariableInstruction):
                d["var"] = i.Name
                d["scope"] = i.Scope.name
            ins.append(d)
        blocks.append({"ref": bb.Reference, "ins": ins, "refs": [d["ref"] for d in ins]})
    # operands used in a block that does not contain the instruction with that reference (for IRWellFormed's VIEW)
    cross = set()
    for blk in blocks:
        local = set(blk["refs"])
        for d in blk["ins"]:
            cross.update(u for u in d["uses"] if u not in local)
    return {"name": fn.Name, "cross": sorted(cross), "argc": len(fn.Type.Arguments),
            "params": [{"n": n, "t": tyj(t, L)} for n, t in fn.Type.Arguments.items()],
            "ret": tyj(fn.Type.ReturnType, L), "consts": consts, "blocks": blocks}


def project_module(m, L):
    return {"funcs": [project_function(f, L) for f in m.Functions.values()],
            "globals": [{"n": n} for n in m.Globals.keys()]}


def listing(m, L):
    """InstructionPrinter listing of every function (text)"""
    out = []

    def pr(*a, end="\n"):
        out.append(" ".join(str(x) for x in a) + end)
    p = L.InstructionPrinter(pr)
    for f in m.Functions.values():
        p.Print(f)
    return "".join(out)
