"""C19 - wasm writer: integers, names and section sizes decode to what was written.

(A) values: spec/MC_C19.tla enumerates the 32-bit patterns around every 7-bit group and
sign-bit boundary (and, thorough, every value below 2^16), proves in TLC that the standard
decoders of spec/Leb128.tla invert the reference encoders, and prints the patterns.  The
driver writes every value with the real writer at the places the format uses it - unsigned
(PackInteger; the index immediate of local.get) and signed (the immediate of i32.const) -
and spec/Leb128Trace.tla decodes the bytes the implementation produced: they must give back
the value written and be consumed exactly.
(B) names and sizes: modules built with the real writer API (export names from a Unicode
alphabet, body and section payloads around the 127/128 and 16383/16384 byte boundaries,
127-129 functions) are read by spec/WasmBinary.tla: every size field must equal the bytes
that follow, every name must come back as the UTF-8 bytes of the name that was written.
"""
import io
import json
import multiprocessing as mp

import common
import wasmlib
from common import quiet

NAMES = ["f", "main", "get_value2", "größe", "色", "naïve_café", "😀", "Ω", "a" * 127, "b" * 128, "ü" * 64, "é" * 63 + "x", "z" * 300, "日本語の名前"]


def encode_values(patterns):
    from nsl import WebAssembly as W
    out = []
    for bits in patterns:
        u = sum(b << k for k, b in enumerate(bits))
        s = u - (1 << 32) if bits[31] else u
        for place in ("pack", "index", "const"):
            try:
                if place == "pack":
                    by = list(W.PackInteger(u))
                    kind = "u"
                elif place == "index":
                    buf = io.BytesIO()
                    W.Instruction(W.opcodes["local.get"], (u,)).WriteTo(buf)
                    by = list(buf.getvalue())[1:]
                    kind = "u"
                else:
                    buf = io.BytesIO()
                    W.Instruction(W.opcodes["i32.const"], (s,)).WriteTo(buf)
                    by = list(buf.getvalue())[1:]
                    kind = "s"
            except BaseException as e:  # noqa
                by, kind = [], ("s" if place == "const" else "u")
            out.append({"id": f"{place}:{u if kind == 'u' else s}", "kind": kind, "bits": bits, "bytes": by})
    return out


def build_modules():
    """modules built through the writer's own API -> [(id, bytes, expectation)]"""
    from nsl import WebAssembly as W
    out = []

    def module(nfuncs, name_of, pairs, with_local):
        pairs_of = pairs if callable(pairs) else (lambda k: pairs)
        m = W.Module()
        t = m.AddFunctionType(W.FunctionType([W.ValueType.i32], [W.ValueType.i32]))
        for k in range(nfuncs):
            m.AddFunction(t)
            m.AddExport(W.Export(k, name_of(k)))
            c = W.Code()
            if with_local:
                c.AddLocal(W.Local(W.ValueType.f32))
            for _ in range(pairs_of(k)):
                c.AddInstruction(W.Instruction(W.opcodes["local.get"], (0,)))
                c.AddInstruction(W.Instruction(W.opcodes["local.set"], (0,)))
            c.AddInstruction(W.Instruction(W.opcodes["local.get"], (0,)))
            m.AddCode(c)
        m.AddTable(W.Table(0))
        buf = io.BytesIO()
        m.WriteTo(buf)
        return buf.getvalue()
    for i, nm in enumerate(NAMES):
        out.append((f"name:{i}", module(1, lambda k: nm, 1, False), {"names": [nm]}))
    for pairs in range(24, 40):
        for wl in (False, True):
            out.append((f"body:{pairs}:{int(wl)}", module(1, lambda k: "f", pairs, wl), {"names": ["f"]}))
    for nf in (0, 1, 2, 126, 127, 128, 129, 130):
        # with 31 pairs each body has 128 bytes, so 127-130 of them push the code section across the 16384-byte boundary
        for pairs in (1, 31):
            out.append((f"funcs:{nf}:{pairs}", module(nf, lambda k: f"f{k}", pairs, False), {"names": [f"f{k}" for k in range(nf)]}))
    # runs of locals of one type (the writer merges them into one entry with a count): counts across 128 and mixed runs
    def locals_module(runs):
        m = W.Module()
        t = m.AddFunctionType(W.FunctionType([W.ValueType.i32], [W.ValueType.i32]))
        m.AddFunction(t)
        m.AddExport(W.Export(0, "f"))
        c = W.Code()
        for ty, cnt in runs:
            for _ in range(cnt):
                c.AddLocal(W.Local(ty))
        c.AddInstruction(W.Instruction(W.opcodes["local.get"], (0,)))
        m.AddCode(c)
        m.AddTable(W.Table(0))
        buf = io.BytesIO()
        m.WriteTo(buf)
        return buf.getvalue()
    for nm, runs in (("1", [(W.ValueType.i32, 1)]), ("127", [(W.ValueType.i32, 127)]), ("128", [(W.ValueType.i32, 128)]), ("129", [(W.ValueType.f32, 129)]), ("200", [(W.ValueType.i32, 200)]),
                     ("100+100", [(W.ValueType.i32, 100), (W.ValueType.f32, 100)]), ("130+3+130", [(W.ValueType.f32, 130), (W.ValueType.i32, 3), (W.ValueType.f32, 130)])):
        out.append((f"locals:{nm}", locals_module(runs), {"names": ["f"]}))
    # bodies of different sizes in one module, in rising, falling and mixed order: every body's size field counts its own bytes
    for nm, sizes in (("rising", [1, 5, 20, 70]), ("falling", [70, 20, 5, 1]), ("mixed", [3, 40, 2, 66, 1, 9]), ("across128", [70, 30, 64, 1])):
        out.append((f"sizes:{nm}", module(len(sizes), lambda k: f"f{k}", lambda k, sizes=sizes: sizes[k], False), {"names": [f"f{k}" for k in range(len(sizes))]}))
    # the LAST instruction of a body sweeps its immediate over every final byte value (there is no trailing return): the `end` that closes
    # the body follows the immediate and must not be confused with it or merged into it
    def tail_module(kind, v):
        m = W.Module()
        res = [] if kind == "set" else [W.ValueType.i32]
        t = m.AddFunctionType(W.FunctionType([W.ValueType.i32], res))
        nf = v + 1 if kind == "call" else 1
        for k in range(nf):
            m.AddFunction(t)
            m.AddExport(W.Export(k, f"f{k}"))
            c = W.Code()
            if k > 0:
                c.AddInstruction(W.Instruction(W.opcodes["local.get"], (0,)))
            elif kind == "const":
                c.AddInstruction(W.Instruction(W.opcodes["i32.const"], (v,)))
            elif kind == "call":
                c.AddInstruction(W.Instruction(W.opcodes["local.get"], (0,)))
                c.AddInstruction(W.Instruction(W.opcodes["call"], (v,)))
            else:
                for _ in range(v):
                    c.AddLocal(W.Local(W.ValueType.i32))
                if kind == "set":
                    c.AddInstruction(W.Instruction(W.opcodes["local.get"], (0,)))
                c.AddInstruction(W.Instruction(W.opcodes["local." + kind], (v,)))
            m.AddCode(c)
        m.AddTable(W.Table(0))
        buf = io.BytesIO()
        m.WriteTo(buf)
        return buf.getvalue(), [f"f{k}" for k in range(nf)]
    for v in list(range(-64, 64)) + [143, 271, 1935, 2063, 12815, -113, 16383, 16384]:
        b_, names = tail_module("const", v)
        out.append((f"tail:const:{v}", b_, {"names": names}))
    for kind in ("set", "get"):
        for v in list(range(1, 40)) + [127, 128, 143]:
            b_, names = tail_module(kind, v)
            out.append((f"tail:{kind}:{v}", b_, {"names": names}))
    if "call" in W.opcodes:
        for v in (1, 5, 11, 14, 15, 16, 143):
            b_, names = tail_module("call", v)
            out.append((f"tail:call:{v}", b_, {"names": names}))
    return out


def run(ctx, args):
    quick = ctx.tier == "quick"
    cfg = (f"CONSTANTS W = {60 if quick else 200} Exh = {0 if quick else 16}\nINIT Init\nNEXT Next\nINVARIANT RoundTripU\nINVARIANT RoundTripS\n"
           "INVARIANT WellFormed\nINVARIANT PaddedU\nINVARIANT Report\nCHECK_DEADLOCK FALSE\n")
    res = ctx.tlc("MC_C19", cfg, timeout=6000)
    patterns = [r["bits"] for r in res.records]
    if len(patterns) < 1000:
        raise common.Machinery(f"only {len(patterns)} value patterns from TLC")
    with mp.Pool(16) as pool:
        enc = [e for part in pool.map(encode_values, [patterns[i:i + 500] for i in range(0, len(patterns), 500)]) for e in part]
    verdicts = {}
    for lo in range(0, len(enc), 20000):
        path = ctx.tmp("leb-batch.json")
        path.write_text(json.dumps(enc[lo:lo + 20000]))
        r2 = ctx.tlc("Leb128Trace", "INIT Init\nNEXT Next\nINVARIANT Report\nCHECK_DEADLOCK FALSE\n", env={"BATCH": str(path)}, timeout=6000)
        for r in r2.records:
            verdicts[r["id"]] = r["verdict"]
    if len(verdicts) != len({e["id"] for e in enc}):
        raise common.Machinery("Leb128Trace did not judge every written value")
    counts = {}
    for e in enc:
        v = verdicts[e["id"]]
        place, val = e["id"].split(":")
        if v == "ok":
            counts["value-ok:" + place] = counts.get("value-ok:" + place, 0) + 1
        else:
            val = int(val)
            cls = "negative" if val < 0 else f"{max(1, (val.bit_length() + 6) // 7)}-group"
            ctx.violation(f"value:{place}:{cls}:{v}", f"{'i32.const ' if place == 'const' else place + ' '}{val} is written as {bytes(e['bytes']).hex(' ')}: {v}",
                          {"value": val, "place": place, "bytes": e["bytes"]})
    # ---- names and sizes through the writer API
    mods = build_modules()
    recs = wasmlib.run_wasmbinary(ctx, [{"id": i, "bytes": list(b), "calls": []} for i, b, _ in mods])
    for i, b, exp in mods:
        r = recs[i]
        kind = i.split(":")[0]
        if r["status"] == "unmodelled":
            # an opcode outside WasmBinary's subset: wasmtime alone decides
            wt = wasmlib.wasmtime_check(b)
            if wt["valid"]:
                counts["module-ok-by-wasmtime:" + kind] = counts.get("module-ok-by-wasmtime:" + kind, 0) + 1
            else:
                ctx.violation(f"module:{kind}:{wt['why'][:60]}", f"module {i} written by the writer API is rejected by wasmtime: {wt['why']}", {"module": i, "bytes_hex": b[:80].hex(" ")})
            continue
        if r["status"] != "valid":
            ctx.violation(f"module:{kind}:{r['why'][:60]}", f"module {i} written by the writer API does not read back: {r['status']}: {r['why']}", {"module": i, "bytes_hex": b[:80].hex(" ")})
            continue
        got = [bytes(x["name"]) for x in r["exports"]]
        want = [n.encode("utf-8") for n in exp["names"]]
        if got != want:
            ctx.violation(f"name:{kind}", f"module {i}: export names read back as {got[:2]!r}, written {want[:2]!r}", {"module": i})
            continue
        wt = wasmlib.wasmtime_check(b)
        if not wt["valid"]:
            raise common.Machinery(f"WasmBinary accepts module {i} but wasmtime rejects it: {wt['why']}")
        counts["module-ok:" + kind] = counts.get("module-ok:" + kind, 0) + 1
    boundary = sum(1 for e in enc if e["id"].split(":")[0] == "const")
    return common.finish(
        ctx, level="model_checking", evaluations=len(enc) + len(mods), distinct_nontrivial=len(patterns),
        rule=f"{len(patterns)} 32-bit patterns from TLC (windows of +-{60 if quick else 200} around 2^6, 2^7, 2^13, 2^14, 2^20, 2^21, 2^27, 2^28, 2^30, 2^31, 2^32-1, "
             f"both signs{'' if quick else ', and all values below 2^16'}), each written by the real writer as an unsigned number (PackInteger, local.get index) and as the "
             f"signed immediate of i32.const, decoded by Leb128Trace; {len(mods)} modules built with the writer API ({len(NAMES)} export names incl. multi-byte UTF-8 and "
             "127/128/300-byte names; bodies of 100-164 and ~16380-16390 bytes; 0-130 functions) read by WasmBinary. distinct_nontrivial = distinct value patterns.",
        samples=[{"pattern_low_bits": p[:16], "reference_encodings": {k: res.records[i][k] for k in ("encu", "encs")}} for i, p in list(enumerate(patterns))[::max(1, len(patterns) // 3)][:3]],
        exhaustive=True, traces_validated=len(enc),
        assumptions=["a written number may be non-minimal as long as the standard decoder returns the value (checked by decoding, not by comparing with the reference encoding)",
                     "wasmtime is used only to cross-check WasmBinary on the API-built modules"],
        extra={"outcome_counts": counts})


def selftest(ctx, args):
    """Negative control for the Leb128Trace binding: bytes the real writer produced are accepted; the same bytes with the last
    byte's low bit flipped, with a continuation bit added to the last byte, or truncated are rejected."""
    bits = lambda n: [(n >> k) & 1 for k in range(32)]  # noqa
    enc = encode_values([bits(n) for n in (0, 63, 64, 127, 128, 300, 16384, 2 ** 31 - 1, 2 ** 31, 2 ** 32 - 1)])
    cases = []
    for e in enc:
        if not e["bytes"]:
            continue
        cases.append(dict(e, id="original|" + e["id"]))
        b = list(e["bytes"])
        cases.append(dict(e, id="bit-flipped|" + e["id"], bytes=b[:-1] + [b[-1] ^ 1]))
        cases.append(dict(e, id="continuation-set|" + e["id"], bytes=b[:-1] + [b[-1] | 0x80]))
        if len(b) > 1:
            cases.append(dict(e, id="truncated|" + e["id"], bytes=b[:-1]))
    path = ctx.tmp("leb-selftest.json")
    path.write_text(json.dumps(cases))
    r2 = ctx.tlc("Leb128Trace", "INIT Init\nNEXT Next\nINVARIANT Report\nCHECK_DEADLOCK FALSE\n", env={"BATCH": str(path)}, timeout=600)
    summary, bad = {}, 0
    for r in r2.records:
        name = r["id"].split("|")[0]
        ok = (r["verdict"] == "ok") == (name == "original")
        summary[name + (":ok" if ok else ":WRONG")] = summary.get(name + (":ok" if ok else ":WRONG"), 0) + 1
        if not ok:
            bad += 1
            print(f"SELFTEST-FAILED {r['id']}: verdict {r['verdict']}")
    print("selftest C19 (Leb128Trace binding):", json.dumps(summary, sort_keys=True))
    return 0 if bad == 0 and len(r2.records) == len(cases) else 2
