"""Conformance of nsl/lexer.py with spec/Lexer.tla (spec -> code): TLC scans every text over a 12-character alphabet up
to a length and a list of probe texts (keywords, suffixes, exponents, operators, illegal characters, line feeds), checks the
scanner's own invariants (Covers, Progress, Maximal) and prints the token sequence; the same texts go through the real PLY
scanner.  Two outcomes are kept apart: (1) what property C20 states - every token the real scanner reports lies at the offset and on the
line where its characters are - is evaluated on the scanner's own output and is a verdict; (2) a difference in how the text is split into
tokens (or in a token's class) is a divergence between Lexer.tla and the code that no listed property forbids: it is printed as a
CONFORMANCE-NOTE and counted in the evidence, never a violation."""
import io
import json
import contextlib

import common

PROBES = [
    "int2 x", "if(a)", "floaty float4x4 matrix3x3", "do{}while(a)", "double", "__optional _a a_1", "return;", "structs struct",
    "0x1F 0xg 0X0ul", "017 08 09", "1ul 1lu 1ull 1LL 1uLL 1Ul", "10u 10l 0u 0LL", "1.5f 1.5L 1.f .5 5. 1.5e3 1.5e+3 1.5e-3 1.5e 1e5 1e 1.e5",
    "1..2", "a.b.c", "v[1].x", "1.x", "a+++b", "a---b", "a-->b", "a->b", "a<<=b>>=c", "a<=b>=c==d!=e", "a&&b||c&d|e^f~g!h", "a+=1-=2*=3/=4%=5&=6|=7^=8",
    "a ? b : c", "a @ b # c $ d", "a\tb\n\nc\n d", "\n\n", "  ", "", "x=-1", "x = - 1", "x-1", "x+1", "x - -1", "-0", "+0", "-01", "1-1", "-1.5", "- 1.5", "a-.5",
    "float4(1,2,3,4)", "f(a, b)[2]:", "export function f(int a) -> int { return a; }", "a%b%=c", "0.0.0", "00", "0e0", "0x", "0xx", "1e+", "1e+e", "e1", "e+1", ".e1",
    "a<-1", "a<<-1", "a=+1", "a==-1", "a&-1", "a&&+1", "<<<=", "===", "&&&=", "+++", "---", "-->",
]


def real_scan(text):
    from nsl import lexer
    lx = lexer.NslLexer()
    lx.Build()
    lx.input(text)
    toks, errs = [], []
    buf = io.StringIO()
    with contextlib.redirect_stdout(buf):
        while True:
            before = lx.lexer.lexpos
            t = lx.token()
            if t is None:
                break
            toks.append({"type": t.type, "text": t.value, "pos": t.lexpos, "line": t.lineno})
    # illegal characters are reported on stdout, one line each; their offsets are where no token and no blank lies
    covered = set()
    for t in toks:
        covered.update(range(t["pos"], t["pos"] + len(t["text"])))
    errs = [i for i, ch in enumerate(text) if i not in covered and ch not in " \t\n"]
    nmsg = buf.getvalue().count("Illegal character")
    return toks, errs, nmsg


def norm_type(t):
    return t.lower() if t.isupper() and t.lower() in KEYWORDS else t


KEYWORDS = {"void", "float", "float2", "float3", "float4", "int", "int2", "int3", "int4", "uint", "uint2", "uint3", "uint4", "matrix3x3", "matrix4x4", "float3x3",
            "float4x4", "function", "if", "else", "struct", "return", "for", "continue", "break", "switch", "do", "while", "case", "export", "import", "__optional",
            "template", "class", "interface", "const"}


def work(recs):
    out = []
    for r in recs:
        text = "".join(r["text"])
        want = [{"type": t["type"], "text": t["text"], "pos": t["pos"], "line": t["line"]} for t in r["toks"]]
        try:
            toks, errs, nmsg = real_scan(text)
        except BaseException as e:  # noqa
            out.append(("NOTE:lexer-raises:" + type(e).__name__, f"text {text!r}: the scanner raises {type(e).__name__}: {e}", {"text": text}))
            continue
        got = [{"type": norm_type(t["type"]), "text": t["text"], "pos": t["pos"], "line": t["line"]} for t in toks]
        # what C20 states, evaluated on the scanner's own output (the specification's invariant Covers and its line counter):
        # every token lies where its characters are, on the line they are on, in order and without overlap
        bad = None
        end = 0
        for k, t in enumerate(got):
            if text[t["pos"]:t["pos"] + len(t["text"])] != t["text"] or t["pos"] < end or len(t["text"]) == 0:
                bad = (k, f"its characters {t['text']!r} are not at offset {t['pos']} (or overlap the previous token)")
            elif t["line"] != 1 + text.count("\n", 0, t["pos"]):
                bad = (k, f"it is reported on line {t['line']}, its offset {t['pos']} lies on line {1 + text.count(chr(10), 0, t['pos'])}")
            if bad:
                break
            end = t["pos"] + len(t["text"])
        if bad:
            out.append(("token-position", f"text {text!r}: token {bad[0]} {got[bad[0]]}: {bad[1]}", {"text": text, "scanner": got}))
            continue
        if got != want:
            k = next((i for i, (a, b) in enumerate(zip(got, want)) if a != b), min(len(got), len(want)))
            which = "type" if k < len(got) and k < len(want) and got[k]["text"] == want[k]["text"] and got[k]["pos"] == want[k]["pos"] and got[k]["type"] != want[k]["type"] else \
                    "line" if k < len(got) and k < len(want) and {x: got[k][x] for x in ("type", "text", "pos")} == {x: want[k][x] for x in ("type", "text", "pos")} else "split"
            # a different split or token class is a divergence from Lexer.tla, not a wrong position: reported as a note
            out.append((f"NOTE:token-{which}", f"text {text!r}: token {k} is {got[k] if k < len(got) else None}, Lexer.tla gives {want[k] if k < len(want) else None}",
                        {"text": text, "scanner": got, "specification": want}))
        elif errs != r["errs"] or nmsg != len(r["errs"]):
            out.append(("NOTE:illegal-characters", f"text {text!r}: illegal characters reported at {errs} ({nmsg} message(s)), Lexer.tla has them at {r['errs']}", {"text": text}))
        else:
            out.append((None, "ok", None))
    return out


def run_lexer_conformance(ctx, maxlen):
    """-> (counts, number of texts); violations are recorded on ctx with keys lexer:<kind>"""
    import multiprocessing as mp
    path = ctx.tmp("lex-probes.json")
    path.write_text(json.dumps([list(p) for p in PROBES]))
    cfg = f"CONSTANTS MaxLen = {maxlen}\nINIT Init\nNEXT Next\nINVARIANT Covers\nINVARIANT Maximal\nINVARIANT Report\nPROPERTY Progress\nCHECK_DEADLOCK FALSE\n"
    res = ctx.tlc("Lexer", cfg, env={"BATCH": str(path)}, timeout=3000)
    recs = [r for r in res.records if "toks" in r]
    want = sum(12 ** k for k in range(0, maxlen + 1)) + len({p for p in PROBES if not (set(p) <= set("ae018.+-=<& ") and len(p) <= maxlen) and '"' not in p})
    if len(recs) < want:
        raise common.Machinery(f"Lexer.tla produced {len(recs)} verdicts, expected at least {want}")
    with mp.Pool(16) as pool:
        outs = pool.map(work, [recs[i:i + 500] for i in range(0, len(recs), 500)])
    counts = {}
    for out in outs:
        for key, what, case in out:
            if key is None:
                counts["ok"] = counts.get("ok", 0) + 1
            elif key.startswith("NOTE:"):
                counts[key] = counts.get(key, 0) + 1
                if counts[key] <= 3:
                    msg = f"CONFORMANCE-NOTE (not a verdict on any listed property): nsl/lexer.py differs from spec/Lexer.tla: {what}"
                    print(msg)
                    ctx.notes.append(msg)
            else:
                counts[key] = counts.get(key, 0) + 1
                ctx.violation("lexer:" + key, what, case)
    return counts, len(recs)
