"""Small-scope family for the optimisation passes (C02, C14): all statement sequences up to a
length over an alphabet of templates that put a load-directly-after-a-store (what
OptimizeLoadAfterStore forwards) in front of every kind of user of a value: a second
forwarded pair, a branch predicate, a member store, an index, a call argument, a loop back
edge, arithmetic, a constant cast.  Programs are ASTs (NslSem's format)."""
import itertools

import nslast as A
from nslast import INT, FLOAT

V, L, B = A.var, A.lit_i, A.bin_
S0 = A.struct("S0", [("a", INT), ("b", FLOAT)])

TEMPLATES = {
    "st":   [A.estmt(A.asg(V("x"), V("a")))],
    "ld":   [A.estmt(A.asg(V("y"), V("x")))],
    "if":   [A.if_(V("x"), A.block([A.estmt(A.asg(V("y"), B("+", V("y"), L(1))))]))],
    "ife":  [A.if_(B(">", V("y"), L(1)), A.block([A.estmt(A.asg(V("x"), L(5)))]), A.block([A.estmt(A.asg(V("x"), V("y")))]))],
    "mst":  [A.estmt(A.asg(A.mem(V("s"), "a"), V("x")))],
    "mld":  [A.estmt(A.asg(V("y"), A.mem(V("s"), "a")))],
    "ix":   [A.estmt(A.asg(A.idx(V("t"), B("%", V("x"), L(2))), V("y")))],
    "call": [A.estmt(A.asg(V("y"), A.call("id", [V("x")])))],
    "loop": [A.while_(B("<", V("x"), L(3)), A.block([A.estmt(A.asg(V("x"), B("+", V("x"), L(1))))]))],
    "add":  [A.estmt(A.asg(V("x"), B("+", V("x"), V("y"))))],
    "fl":   [A.estmt(A.asg(V("f"), B("+", V("x"), L(1)))), A.estmt(A.asg(V("y"), B(">", V("f"), A.lit_f(3, 1))))],
    "ald":  [A.estmt(A.asg(V("y"), A.idx(V("t"), L(1))))],
    "gst":  [A.estmt(A.asg(V("g"), V("y")))],           # third link of a copy chain x = a; y = x; g = y
    "gld":  [A.estmt(A.asg(V("x"), V("g")))],           # ... and a fourth one: x = g
}

# second alphabet (combined among themselves and with st / ld only, to keep the family small): whole-aggregate copies followed
# by an element / member store of a literal (the store's operand load directly follows the copy's store), and sibling blocks
# that declare the same name, the second one without initialiser (a declaration is an instruction between store and load)
TEMPLATES2 = {
    "acp":  [A.estmt(A.asg(V("u"), V("t")))],
    "ust":  [A.estmt(A.asg(A.idx(V("u"), L(0)), L(5)))],
    "tst":  [A.estmt(A.asg(A.idx(V("t"), L(0)), L(7)))],
    "scp":  [A.estmt(A.asg(V("s2"), V("s")))],
    "s2st": [A.estmt(A.asg(A.mem(V("s2"), "a"), L(9)))],
    "blk1": [A.block([A.decl("w", INT, V("x")), A.estmt(A.asg(V("y"), B("+", V("y"), V("w"))))])],
    "blk2": [A.block([A.decl("w", INT), A.estmt(A.asg(V("y"), B("+", V("y"), V("w"))))])],
    "blk3": [A.block([A.decl("w", INT, V("a"))])],
    "blk4": [A.block([A.decl("w", INT), A.ret(V("w"))])],
}

# longer copy chains (every statement reads the variable the previous one wrote), included at every length bound
EXTRA = [("st", "ld", "gst", "gld"), ("st", "ld", "gst", "gld", "ld"), ("st", "ld", "gst", "gld", "ld", "gst", "gld", "if"),
         ("ld", "gst", "gld", "mst"), ("st", "ld", "gst", "gld", "call"), ("add", "ld", "gst", "gld", "ix")]


def programs(maxlen):
    names = list(TEMPLATES)
    out = []
    idf = A.func("id", [("q", INT)], INT, A.block([A.estmt(A.asg(V("q"), B("+", V("q"), L(1)))), A.ret(V("q"))]))
    for n in range(1, maxlen + 1):
        second = [q for q in itertools.product(list(TEMPLATES2) + ["st", "ld"], repeat=min(n, 3)) if any(nm in TEMPLATES2 for nm in q)] if n <= 3 else []
        for seq in list(itertools.product(names, repeat=n)) + (EXTRA if n == maxlen else []) + second:
            body = [A.decl("x", INT, V("a")), A.decl("y", INT, L(1)), A.decl("f", FLOAT, L(2)), A.decl("s", S0), A.decl("t", A.arr(INT, [2]))]
            if any(nm in TEMPLATES2 for nm in seq):
                body += [A.decl("u", A.arr(INT, [2])), A.decl("s2", S0)]
            for nm in seq:
                body += TEMPLATES[nm] if nm in TEMPLATES else TEMPLATES2[nm]
            if any(nm in TEMPLATES2 for nm in seq):
                body.append(A.estmt(A.asg(V("y"), B("+", B("*", V("y"), L(10)), B("+", B("+", A.idx(V("u"), L(0)), A.mem(V("s2"), "a")), A.mem(V("s"), "a"))))))
            body.append(A.ret(B("+", B("*", V("x"), L(100)), B("+", V("y"), A.idx(V("t"), L(0))))))
            prog = A.prog([("g", INT)], [idf, A.func("f", [("a", INT)], INT, A.block(body), True)], [S0])
            out.append(("-".join(seq), prog))
    return out


INPUTS = [0, 1, 4]
