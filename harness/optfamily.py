"""Small-scope family for the optimisation passes (C02, C14): all statement sequences up to a
length over an alphabet of templates that put a load-directly-after-a-store (what
OptimizeLoadAfterStore forwards) in front of every kind of user of a value: a second
forwarded pair, a branch predicate, a member store, an index, a call argument, a loop back
edge, arithmetic, a constant cast.  Programs are ASTs (NslSem's format)."""
import itertools

import nslast as A
from nslast import INT, FLOAT

V, L, B = A.var, A.lit_i, A.bin_
S0 = A.struct("S0", [("a", INT), ("b", FLOAT)])

TEMPLATES = {
    "st":   [A.estmt(A.asg(V("x"), V("a")))],
    "ld":   [A.estmt(A.asg(V("y"), V("x")))],
    "if":   [A.if_(V("x"), A.block([A.estmt(A.asg(V("y"), B("+", V("y"), L(1))))]))],
    "ife":  [A.if_(B(">", V("y"), L(1)), A.block([A.estmt(A.asg(V("x"), L(5)))]), A.block([A.estmt(A.asg(V("x"), V("y")))]))],
    "mst":  [A.estmt(A.asg(A.mem(V("s"), "a"), V("x")))],
    "mld":  [A.estmt(A.asg(V("y"), A.mem(V("s"), "a")))],
    "ix":   [A.estmt(A.asg(A.idx(V("t"), B("%", V("x"), L(2))), V("y")))],
    "call": [A.estmt(A.asg(V("y"), A.call("id", [V("x")])))],
    "loop": [A.while_(B("<", V("x"), L(3)), A.block([A.estmt(A.asg(V("x"), B("+", V("x"), L(1))))]))],
    "add":  [A.estmt(A.asg(V("x"), B("+", V("x"), V("y"))))],
    "fl":   [A.estmt(A.asg(V("f"), B("+", V("x"), L(1)))), A.estmt(A.asg(V("y"), B(">", V("f"), A.lit_f(3, 1))))],
    "ald":  [A.estmt(A.asg(V("y"), A.idx(V("t"), L(1))))],
    "gst":  [A.estmt(A.asg(V("g"), V("y")))],           # third link of a copy chain x = a; y = x; g = y
    "gld":  [A.estmt(A.asg(V("x"), V("g")))],           # ... and a fourth one: x = g
}

# longer copy chains (every statement reads the variable the previous one wrote), included at every length bound
EXTRA = [("st", "ld", "gst", "gld"), ("st", "ld", "gst", "gld", "ld"), ("st", "ld", "gst", "gld", "ld", "gst", "gld", "if"),
         ("ld", "gst", "gld", "mst"), ("st", "ld", "gst", "gld", "call"), ("add", "ld", "gst", "gld", "ix")]


def programs(maxlen):
    names = list(TEMPLATES)
    out = []
    idf = A.func("id", [("q", INT)], INT, A.block([A.estmt(A.asg(V("q"), B("+", V("q"), L(1)))), A.ret(V("q"))]))
    for n in range(1, maxlen + 1):
        for seq in list(itertools.product(names, repeat=n)) + (EXTRA if n == maxlen else []):
            body = [A.decl("x", INT, V("a")), A.decl("y", INT, L(1)), A.decl("f", FLOAT, L(2)), A.decl("s", S0), A.decl("t", A.arr(INT, [2]))]
            for nm in seq:
                body += TEMPLATES[nm]
            body.append(A.ret(B("+", B("*", V("x"), L(100)), B("+", V("y"), A.idx(V("t"), L(0))))))
            prog = A.prog([("g", INT)], [idf, A.func("f", [("a", INT)], INT, A.block(body), True)], [S0])
            out.append(("-".join(seq), prog))
    return out


INPUTS = [0, 1, 4]
