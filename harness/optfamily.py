"""Small-scope family for the optimisation passes (C02, C14): all statement sequences up to a
length over an alphabet of templates that put a load-directly-after-a-store (what
OptimizeLoadAfterStore forwards) in front of every kind of user of a value: a second
forwarded pair, a branch predicate, a member store, an index, a call argument, a loop back
edge, arithmetic, a constant cast.  Programs are ASTs (NslSem's format)."""
import itertools

import nslast as A
from nslast import INT, FLOAT

V, L, B = A.var, A.lit_i, A.bin_
S0 = A.struct("S0", [("a", INT), ("b", FLOAT)])

TEMPLATES = {
    "st":   [A.estmt(A.asg(V("x"), V("a")))],
    "ld":   [A.estmt(A.asg(V("y"), V("x")))],
    "if":   [A.if_(V("x"), A.block([A.estmt(A.asg(V("y"), B("+", V("y"), L(1))))]))],
    "ife":  [A.if_(B(">", V("y"), L(1)), A.block([A.estmt(A.asg(V("x"), L(5)))]), A.block([A.estmt(A.asg(V("x"), V("y")))]))],
    "mst":  [A.estmt(A.asg(A.mem(V("s"), "a"), V("x")))],
    "mld":  [A.estmt(A.asg(V("y"), A.mem(V("s"), "a")))],
    "ix":   [A.estmt(A.asg(A.idx(V("t"), B("%", V("x"), L(2))), V("y")))],
    "call": [A.estmt(A.asg(V("y"), A.call("id", [V("x")])))],
    "loop": [A.while_(B("<", V("x"), L(3)), A.block([A.estmt(A.asg(V("x"), B("+", V("x"), L(1))))]))],
    "add":  [A.estmt(A.asg(V("x"), B("+", V("x"), V("y"))))],
    "fl":   [A.estmt(A.asg(V("f"), B("+", V("x"), L(1)))), A.estmt(A.asg(V("y"), B(">", V("f"), A.lit_f(3, 1))))],
    "ald":  [A.estmt(A.asg(V("y"), A.idx(V("t"), L(1))))],
    "gst":  [A.estmt(A.asg(V("g"), V("y")))],           # third link of a copy chain x = a; y = x; g = y
    "gld":  [A.estmt(A.asg(V("x"), V("g")))],           # ... and a fourth one: x = g
}

# second alphabet (combined among themselves and with st / ld only, to keep the family small): whole-aggregate copies followed
# by an element / member store of a literal (the store's operand load directly follows the copy's store), and sibling blocks
# that declare the same name, the second one without initialiser (a declaration is an instruction between store and load)
TEMPLATES2 = {
    "acp":  [A.estmt(A.asg(V("u"), V("t")))],
    "ust":  [A.estmt(A.asg(A.idx(V("u"), L(0)), L(5)))],
    "tst":  [A.estmt(A.asg(A.idx(V("t"), L(0)), L(7)))],
    "scp":  [A.estmt(A.asg(V("s2"), V("s")))],
    "s2st": [A.estmt(A.asg(A.mem(V("s2"), "a"), L(9)))],
    "blk1": [A.block([A.decl("w", INT, V("x")), A.estmt(A.asg(V("y"), B("+", V("y"), V("w"))))])],
    "blk2": [A.block([A.decl("w", INT), A.estmt(A.asg(V("y"), B("+", V("y"), V("w"))))])],
    "blk3": [A.block([A.decl("w", INT, V("a"))])],
    "blk4": [A.block([A.decl("w", INT), A.ret(V("w"))])],
    # a block-local variable that carries the global's name (rejected today at both levels), read directly after its initialiser
    "shadow": [A.block([A.decl("g", INT, B("*", V("x"), L(2))), A.estmt(A.asg(V("y"), V("g")))])],
    # a single-component write to a vector directly followed by a constructor / a whole-vector use of it
    "vset": [A.estmt(A.asg(A.swz(V("v3"), [2]), V("f")))],
    "vidx": [A.estmt(A.asg(A.idx(V("v3"), L(1)), V("f")))],
    "vcons": [A.estmt(A.asg(V("v4"), A.cons(A.vec("float", 4), [V("v3"), A.lit_f(1, 0)])))],
    "vuse": [A.estmt(A.asg(V("v4"), A.cons(A.vec("float", 4), [A.lit_f(1, 1), B("*", V("v3"), A.lit_f(2, 0))])))],
    # a call with literal arguments only (no variable access between a store and a load around it) to a function that writes the global
    "gcall": [A.estmt(A.call("bump", [L(10)]))],
    "gst2": [A.estmt(A.asg(V("g"), V("y")))],
    "gld2": [A.estmt(A.asg(V("x"), V("g")))],
    "gret": [A.estmt(A.asg(V("y"), B("+", A.call("bump", [L(10)]), V("g"))))],
    # explicit casts of literals (constant folding of casts): negative and fractional literals to int / uint / float
    "ucast": [A.estmt(A.asg(V("y"), B("+", V("y"), A.cons(A.UINT, [A.lit_i(-3)]))))],
    "ucastf": [A.estmt(A.asg(V("y"), B("+", V("y"), A.cons(A.UINT, [A.lit_f(5, 1)]))))],
    "icast": [A.estmt(A.asg(V("y"), B("+", V("y"), A.cons(INT, [A.lit_i(-3)]))))],
    "icastf": [A.estmt(A.asg(V("y"), B("+", V("y"), A.cons(INT, [A.lit_f(7, 1)]))))],
    "fcast": [A.estmt(A.asg(V("f"), B("+", V("f"), A.cons(FLOAT, [A.lit_i(-3)]))))],
}

GROUPS2 = [("acp", "ust", "tst", "scp", "s2st"), ("blk1", "blk2", "blk3", "blk4", "shadow"), ("vset", "vidx", "vcons", "vuse"),
           ("gcall", "gst2", "gld2", "gret"), ("ucast", "ucastf", "icast", "icastf", "fcast")]

# longer copy chains (every statement reads the variable the previous one wrote), included at every length bound
EXTRA = [("st", "ld", "gst", "gld"), ("st", "ld", "gst", "gld", "ld"), ("st", "ld", "gst", "gld", "ld", "gst", "gld", "if"),
         ("ld", "gst", "gld", "mst"), ("st", "ld", "gst", "gld", "call"), ("add", "ld", "gst", "gld", "ix")]


def programs(maxlen):
    names = list(TEMPLATES)
    out = []
    idf = A.func("id", [("q", INT)], INT, A.block([A.estmt(A.asg(V("q"), B("+", V("q"), L(1)))), A.ret(V("q"))]))
    bumpf = A.func("bump", [("k", INT)], INT, A.block([A.estmt(A.asg(V("g"), B("+", V("g"), V("k")))), A.ret(V("g"))]))
    for n in range(1, maxlen + 1):
        # second alphabet: all sequences of length <= 2 (with st / ld), and of length 3 within each group of related templates
        if n <= 2:
            second = [q for q in itertools.product(list(TEMPLATES2) + ["st", "ld"], repeat=n) if any(nm in TEMPLATES2 for nm in q)]
        elif n == 3:
            second = []
            for grp in GROUPS2:
                second += [q for q in itertools.product(list(grp) + ["st", "ld"], repeat=3) if any(nm in TEMPLATES2 for nm in q)]
        else:
            second = []
        for seq in list(itertools.product(names, repeat=n)) + (EXTRA if n == maxlen else []) + second:
            body = [A.decl("x", INT, V("a")), A.decl("y", INT, L(1)), A.decl("f", FLOAT, L(2)), A.decl("s", S0), A.decl("t", A.arr(INT, [2]))]
            if any(nm in TEMPLATES2 for nm in seq):
                body += [A.decl("u", A.arr(INT, [2])), A.decl("s2", S0), A.decl("v3", A.vec("float", 3), A.cons(A.vec("float", 3), [L(1), L(2), L(3)])), A.decl("v4", A.vec("float", 4))]
            for nm in seq:
                body += TEMPLATES[nm] if nm in TEMPLATES else TEMPLATES2[nm]
            if any(nm in TEMPLATES2 for nm in seq):
                body.append(A.estmt(A.asg(V("f"), B("+", B("+", V("f"), A.swz(V("v4"), [0])), B("+", B("*", A.swz(V("v4"), [2]), L(10)), B("*", A.swz(V("v4"), [3]), L(100)))))))
                body.append(A.estmt(A.asg(V("y"), B("+", B("*", V("y"), L(10)), B("+", B("+", A.idx(V("u"), L(0)), A.mem(V("s2"), "a")), B("+", A.mem(V("s"), "a"), B("*", B(">", V("f"), L(40)), L(5))))))))
            body.append(A.ret(B("+", B("*", V("x"), L(100)), B("+", V("y"), A.idx(V("t"), L(0))))))
            prog = A.prog([("g", INT)], [idf] + ([bumpf] if any(nm in ("gcall", "gret") for nm in seq) else []) + [A.func("f", [("a", INT)], INT, A.block(body), True)], [S0])
            out.append(("-".join(seq), prog))
    return out


INPUTS = [0, 1, 4]


def quick_family(seed):
    """quick tier: all sequences of length <= 2, the copy chains, the whole second alphabet, and a seeded third of the 2744 sequences
    of length 3 over the first alphabet"""
    import random
    fam = programs(3)
    three = [x for x in fam if len(x[0].split("-")) == 3 and all(nm in TEMPLATES for nm in x[0].split("-"))]
    ids = set(id(x) for x in three)
    keep = set(id(x) for x in random.Random(seed).sample(three, len(three) // 3))
    return [x for x in fam if id(x) not in ids or id(x) in keep]
