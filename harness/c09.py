"""C09 - operator typing: accepted operand combinations, result type, conversions.

Binding (A): TLC evaluates spec/NslTypes.tla!ResolveBinary on the whole universe
(13 operators x 63 x 63 types; one state per (operator, left type) row, laws of the
table checked as invariants) and prints the prescribed outcome of every triple.  The
driver (1) calls the real typing interface nsl.types.ResolveBinaryExpressionType on all
51 597 triples and (2) compiles `export function f(L a, R b) -> T { return a OP b; }`
for all 13 x 14 x 14 spellable triples, comparing accept/reject, the static type of the
returned value in the compiled module and the conversions applied to the operands.
"""
import multiprocessing as mp

import common
from common import quiet

OPCLASS = {"<": "cmp", "<=": "cmp", ">": "cmp", ">=": "cmp", "==": "cmp", "!=": "cmp",
           "&&": "log", "||": "log", "+": "add", "-": "add", "%": "mod", "*": "mul", "/": "div"}


def parse_type(name):
    """'float' | 'int3' | 'uint2x4' -> (comp, kind, rows, cols)"""
    for c in ("float", "uint", "int"):
        if name.startswith(c):
            rest = name[len(c):]
            if rest == "":
                return (c, "s", 1, 1)
            if "x" in rest:
                r, n = rest.split("x")
                return (c, "m", int(r), int(n))
            return (c, "v", int(rest), 1)
    raise ValueError(name)


def mk_type(name):
    from nsl import types
    c, k, r, n = parse_type(name)
    comp = {"float": types.Float, "int": types.Integer, "uint": types.UnsignedInteger}[c]()
    if k == "s":
        return comp
    if k == "v":
        return types.VectorType(comp, r)
    return types.MatrixType(comp, r, n)


def type_name(t):
    """nsl.types.* -> the specification's name"""
    from nsl import types
    if isinstance(t, types.VectorType):
        return f"{t.GetComponentType().GetName()}{t.GetComponentCount()}"
    if isinstance(t, types.MatrixType):
        return f"{t.GetComponentType().GetName()}{t.GetRowCount()}x{t.GetColumnCount()}"
    if isinstance(t, types.ScalarType):
        return t.GetName()
    return "?" + type(t).__name__


def ir_type_name(t):
    from nsl import LinearIR as L
    if isinstance(t, L.IntegerType):
        return "uint" if t.Unsigned else "int"
    if isinstance(t, L.FloatType):
        return "float"
    if isinstance(t, L.VectorType):
        return f"{ir_type_name(t.ElementType)}{t.Size}"
    if isinstance(t, L.MatrixType):
        return f"{ir_type_name(t.ElementType)}{t.RowCount}x{t.ColumnCount}"
    return "?" + type(t).__name__


def shape(name):
    return parse_type(name)[1]


def iface_row(row):
    """All 63 right types of one (op, L) row at the typing interface."""
    from nsl import types, op as nslop
    out = []
    o = row["op"]
    L = mk_type(row["L"])
    operation = nslop.StrToOp(o)
    for cell in row["cells"]:
        R = mk_type(cell["R"])
        case = {"op": o, "L": row["L"], "R": cell["R"], "expected": {k: cell[k] for k in ("ok", "res", "lt", "rt")}}
        kk = f"{OPCLASS[o]}:{shape(row['L'])}{shape(cell['R'])}"
        try:
            with quiet():
                et = types.ResolveBinaryExpressionType(operation, L, R)
            got = {"ok": True, "res": type_name(et.GetReturnType()),
                   "lt": type_name(et.GetOperandType(0)) if et.GetOperandType(0) is not None else "None",
                   "rt": type_name(et.GetOperandType(1)) if et.GetOperandType(1) is not None else "None"}
        except BaseException as e:  # noqa  (any exception is a refusal at this interface)
            got = {"ok": False, "exc": type(e).__name__}
        case["got"] = got
        if not cell["judged"]:
            out.append(("unjudged", None, None))
            continue
        if cell["ok"] and not got["ok"]:
            out.append((f"iface-rejects-defined:{kk}", f"typing interface refuses {row['L']} {o} {cell['R']} ({got['exc']}), the language defines it as {cell['res']}", case))
        elif not cell["ok"] and got["ok"]:
            out.append((f"iface-accepts-undefined:{kk}", f"typing interface accepts {row['L']} {o} {cell['R']} (as {got['res']}), the language rejects it", case))
        elif cell["ok"]:
            if got["res"] != cell["res"]:
                out.append((f"iface-result-type:{kk}", f"{row['L']} {o} {cell['R']} typed {got['res']}, the language says {cell['res']}", case))
            elif cell["operands"] and (got["lt"] != cell["lt"] or got["rt"] != cell["rt"]):
                out.append((f"iface-operand-conversion:{kk}", f"{row['L']} {o} {cell['R']} converts operands to ({got['lt']}, {got['rt']}), the language says ({cell['lt']}, {cell['rt']})", case))
            else:
                out.append(("ok-accept", None, None))
        else:
            out.append(("ok-reject", None, None))
    return out


SPELL = {"float3x3": "float3x3", "float4x4": "float4x4"}


def e2e_row(row):
    """Spellable triples of one row, end to end through the compiler."""
    from nsl import LinearIR
    out = []
    o = row["op"]
    for cell in row["cells"]:
        if not cell["spell"]:
            continue
        T = cell["res"] if cell["ok"] else "float"
        src = f"export function f({row['L']} a, {cell['R']} b) -> {T}\n{{\n  return a {o} b;\n}}\n"
        case = {"op": o, "L": row["L"], "R": cell["R"], "source": src, "expected": {k: cell[k] for k in ("ok", "res", "lt", "rt")}}
        kk = f"{OPCLASS[o]}:{shape(row['L'])}{shape(cell['R'])}"
        results = {}
        for opt in (False, True):
            st, r = common.compile_source(src, {"optimize": opt})
            results[opt] = (st, r)
        if not cell["judged"]:
            out.append(("unjudged", None, None))
            continue
        for opt, (st, r) in results.items():
            tag = "O1" if opt else "O0"
            case2 = dict(case, optimize=opt)
            if cell["ok"] and st != "ok":
                out.append((f"e2e-rejects-defined:{kk}:{':'.join(r.split(':')[:2])}", f"compiler refuses `{row['L']} a {o} {cell['R']} b` ({r[:60]}), the language defines it as {cell['res']}", dict(case2, got=r)))
                continue
            if not cell["ok"] and st == "ok":
                out.append((f"e2e-accepts-undefined:{kk}", f"compiler accepts `{row['L']} a {o} {cell['R']} b`, the language rejects it", case2))
                continue
            if not cell["ok"]:
                out.append(("ok-reject", None, None))
                continue
            # static type of the returned value; conversions applied to the two parameter loads
            fn = r.IRModule.Functions["f"]
            ins = fn.Instructions
            rets = [i for i in ins if i.OpCode == LinearIR.OpCode.RETURN]
            if len(rets) != 1 or rets[0].Value is None:
                out.append((f"e2e-no-return-value:{kk}", "compiled function has no single value-returning ret", case2))
                continue
            got_res = ir_type_name(rets[0].Value.Type)
            conv = {}
            loads = {}
            for i in ins:
                if isinstance(i, LinearIR.VariableAccessInstruction) and i.Store is None and \
                        i.Scope == LinearIR.VariableAccessScope.FUNCTION_ARGUMENT:
                    loads[i.Reference] = i.Variable      # index after RewriteFunctionArgAccess
            for i in ins:
                if isinstance(i, LinearIR.CastInstruction) and getattr(i.Value, "Reference", None) in loads:
                    conv[loads[i.Value.Reference]] = ir_type_name(i.Type)
            got_l = conv.get(0, row["L"])
            got_r = conv.get(1, cell["R"])
            case2["got"] = {"res": got_res, "lt": got_l, "rt": got_r}
            if got_res != cell["res"]:
                out.append((f"e2e-result-type:{kk}", f"`{row['L']} a {o} {cell['R']} b` compiled to a value of type {got_res}, the language says {cell['res']} [{tag}]", case2))
            elif cell["operands"] and (got_l != cell["lt"] or got_r != cell["rt"]):
                out.append((f"e2e-operand-conversion:{kk}", f"`{row['L']} a {o} {cell['R']} b` converts operands to ({got_l}, {got_r}), the language says ({cell['lt']}, {cell['rt']}) [{tag}]", case2))
            else:
                out.append(("ok-accept", None, None))
        # the same expression as a call argument and as a constructor argument: the value handed over has the defined type
        if cell["ok"] and cell["judged"] and results[False][0] == "ok":
            variants = [("call-argument", f"function id({T} x) -> {T}\n{{\n  return x;\n}}\nexport function f({row['L']} a, {cell['R']} b) -> {T}\n{{\n  return id(a {o} b);\n}}\n")]
            if parse_type(T)[1] in ("s", "v"):
                variants.append(("constructor-argument", f"export function f({row['L']} a, {cell['R']} b) -> {T}\n{{\n  return {T}(a {o} b);\n}}\n"))
            for vname, src2 in variants:
                case2 = dict(case, source=src2, position=vname)
                st, r = common.compile_source(src2, {"optimize": False})
                if st != "ok":
                    out.append((f"e2e-rejects-defined-as-{vname}:{kk}", f"compiler refuses `a {o} b` ({row['L']}, {cell['R']}) as a {vname} ({r[:60]})", dict(case2, got=r)))
                    continue
                ins = r.IRModule.Functions["f"].Instructions
                want_cls = LinearIR.CallInstruction if vname == "call-argument" else LinearIR.ConstructPrimitiveInstruction
                users = [i for i in ins if isinstance(i, want_cls)]
                if len(users) != 1:
                    out.append((f"e2e-shape-{vname}:{kk}", f"expected one call / constructor instruction, found {len(users)}", case2))
                    continue
                arg = (users[0].Arguments if isinstance(users[0], LinearIR.CallInstruction) else users[0].Values)[0]
                while isinstance(arg, LinearIR.CastInstruction):
                    arg = arg.Value
                got = ir_type_name(arg.Type)
                if got != cell["res"]:
                    out.append((f"e2e-result-type-{vname}:{kk}", f"`{row['L']} a {o} {cell['R']} b` as a {vname} is computed as {got}, the language says {cell['res']}", dict(case2, got=got)))
                else:
                    out.append(("ok-accept", None, None))
        # the same expression as the LEFT operand of an outer operator that converts its result: (a o b) * s with a float s.  The outer
        # conversion applies to the inner RESULT; the inner operands are still converted as the inner operator prescribes
        if cell["ok"] and cell["judged"] and cell["operands"] and results[False][0] == "ok":
            c_, k_, r_, _ = parse_type(cell["res"])
            if c_ in ("int", "uint") and k_ in ("s", "v"):
                T2 = "float" if k_ == "s" else f"float{r_}"
                src3 = f"export function f({row['L']} a, {cell['R']} b, float s) -> {T2}\n{{\n  return (a {o} b) * s;\n}}\n"
                for opt in (False, True):
                    case3 = dict(case, source=src3, position="left operand of `* s` (float s)", optimize=opt)
                    st, r = common.compile_source(src3, {"optimize": opt})
                    if st != "ok":
                        out.append((f"e2e-rejects-defined-nested:{kk}", f"compiler refuses `(a {o} b) * s` ({row['L']}, {cell['R']}, float) ({r[:60]})", dict(case3, got=r)))
                        continue
                    bins = [i for i in r.IRModule.Functions["f"].Instructions if isinstance(i, LinearIR.BinaryInstruction)]
                    if len(bins) != 2:
                        out.append(("unjudged", None, None))      # another lowering shape: not judged
                        continue
                    # operand types by PARAMETER (the lowering may swap the operands of a commutative operator): follow casts back to the load
                    ins3 = r.IRModule.Functions["f"].Instructions
                    loads3 = {i.Reference: i.Variable for i in ins3 if isinstance(i, LinearIR.VariableAccessInstruction) and i.Store is None
                              and i.Scope == LinearIR.VariableAccessScope.FUNCTION_ARGUMENT}
                    byparam = {}
                    for v in bins[0].Values:
                        base = v
                        while isinstance(base, LinearIR.CastInstruction):
                            base = base.Value
                        byparam[loads3.get(getattr(base, "Reference", None))] = ir_type_name(v.Type)
                    if set(byparam) != {0, 1}:
                        out.append(("unjudged", None, None))
                        continue
                    got = (byparam[0], byparam[1])
                    if got != (cell["lt"], cell["rt"]):
                        out.append((f"e2e-operand-conversion-nested:{kk}", f"`({row['L']} a {o} {cell['R']} b) * s`: the inner operator receives operands of types {got}, "
                                    f"the language converts them to ({cell['lt']}, {cell['rt']}) [{'O1' if opt else 'O0'}]", dict(case3, got=list(got))))
                    else:
                        out.append(("ok-accept", None, None))
    return out


def work(job):
    kind, row = job
    return (kind, iface_row(row) if kind == "iface" else e2e_row(row))


def run(ctx, args):
    cfg = "INIT Init\nNEXT Next\nINVARIANT Laws\nINVARIANT Report\nCHECK_DEADLOCK FALSE\n"
    res = ctx.tlc("MC_C09", cfg)
    rows = res.records
    if len(rows) != 13 * 63 or any(len(r["cells"]) != 63 for r in rows):
        raise common.Machinery(f"expected 819 rows of 63 cells from TLC, got {len(rows)}")
    jobs = [("iface", r) for r in rows] + [("e2e", r) for r in rows if any(c["spell"] for c in r["cells"])]
    with mp.Pool(16) as pool:
        results = pool.map(work, jobs, chunksize=8)
    counts = {}
    evals = 0
    for kind, out in results:
        for key, what, case in out:
            evals += 1
            if what is None:
                counts[kind + ":" + key] = counts.get(kind + ":" + key, 0) + 1
            else:
                ctx.violation(key, what, case)
    iface_total = sum(v for k, v in counts.items() if k.startswith("iface:")) + \
        sum(1 for v in ctx.violations if v["key"].startswith("iface-"))
    if iface_total != 13 * 63 * 63:
        raise common.Machinery(f"typing interface: {iface_total} outcomes for 51597 triples")
    # vacuity: the table accepts and rejects, judged and unjudged cells exist
    for k in ("iface:ok-accept", "iface:ok-reject", "e2e:ok-accept", "e2e:ok-reject"):
        if counts.get(k, 0) == 0 and not ctx.violations:
            raise common.Machinery(f"vacuous run: no {k} outcome")
    judged = sum(1 for r in rows for c in r["cells"] if c["judged"])
    accepted = sum(1 for r in rows for c in r["cells"] if c["judged"] and c["ok"])
    samples = [{"op": r["op"], "L": r["L"], "R": c["R"], "prescribed": {k: c[k] for k in ("ok", "res", "lt", "rt")}}
               for r in rows[:400:57] for c in r["cells"][:40:13]]
    return common.finish(
        ctx, level="model_checking", evaluations=evals, distinct_nontrivial=accepted,
        rule="TLC evaluates NslTypes!ResolveBinary on all 13 x 63 x 63 (operator, left, right) triples of the internal type universe "
             "(one state per (operator, left) row; the table's laws are invariants). Every triple is replayed at nsl.types.ResolveBinaryExpressionType; "
             "every spellable triple (13 x 14 x 14) is compiled at both optimisation levels and accept/reject, the IR type of the returned value "
             "and the casts on the two parameter loads are compared. distinct_nontrivial = judged triples the language accepts "
             f"(a result type and two conversion types had to match); judged triples = {judged}.",
        samples=samples, exhaustive=True, traces_validated=evals,
        assumptions=["not judged: comparison of two matrices, one-component vectors, vector x one-row matrix (statement leaves them open)",
                     "operand conversion types are not judged for comparison operators",
                     "at the typing interface any exception counts as a refusal; end to end, Compile returning None or raising counts as a refusal"],
        extra={"outcome_counts": counts, "judged_triples": judged})
