"""C03 - calls pass arguments by value into isolated frames and reach the chosen overload.

Refinement + trace check.  Call-heavy programs (nested, repeated, recursive, overloaded
calls; callees that assign to their parameters and use the caller's local names; vector
parameters written through index and swizzle) come from the seeded generator and from a
deterministic family (every vector / matrix parameter type x every way a callee can modify
it, the caller returning its own variable afterwards).
  * spec/NslSem.tla runs every case in TLC (properties FrameIsolation and CallDiscipline are
    checked on each behaviour) and prints the prescribed result AND the prescribed sequence
    of activations (callee chosen by NslTypes!Best on the argument types, arguments
    converted to the parameter types);
  * the real VM runs the same case with the call tracer on: the sequence of activations
    (function, argument values at entry) is compared with the prescribed one, and at every
    return the caller's arguments and named locals are compared with the snapshot taken at
    the call - frame isolation evaluated on the implementation's states, at every return,
    not only where the program happens to read a parameter again.
"""
import multiprocessing as mp

import common
import nslast as A
import nslgen
import semrun
import vmtrace
from nslast import INT, FLOAT

FEAT = dict(vectors=True, uint=False, arrays=True, structs=False, maxstmts=4, depth=1)


def family():
    out = []
    vtypes = [A.vec("float", 2), A.vec("float", 3), A.vec("float", 4), A.vec("int", 3), A.mat("float", 3, 3), A.mat("float", 4, 4)]
    for t in vtypes:
        if t["k"] == "vec":
            comp = {"k": t["c"]}
            muts = [("index", [A.estmt(A.asg(A.idx(A.var("v"), A.lit_i(0)), A.lit_i(100)))]),
                    ("index-compound", [A.estmt(A.casg("+", A.idx(A.var("v"), A.lit_i(1)), A.lit_i(3)))]),
                    ("index-dynamic", [A.estmt(A.asg(A.idx(A.var("v"), A.var("k")), A.lit_i(50)))]),
                    ("swizzle1", [A.estmt(A.asg(A.swz(A.var("v"), [1]), A.lit_i(100)))]),
                    ("swizzle2", [A.estmt(A.asg(A.swz(A.var("v"), [1, 0]), A.cons(A.vec(t["c"], 2), [A.lit_i(8), A.lit_i(9)])))]),
                    ("whole", [A.estmt(A.asg(A.var("v"), A.bin_("*", A.var("v"), A.lit_i(2))))]),
                    ("local-copy", [A.decl("w", t, A.var("v")), A.estmt(A.asg(A.idx(A.var("w"), A.lit_i(0)), A.lit_i(77))), A.estmt(A.asg(A.var("v"), A.var("w")))])]
            read = A.idx(A.var("v"), A.lit_i(0))
        else:
            comp = FLOAT
            row = A.vec("float", t["n"])
            muts = [("element", [A.estmt(A.asg(A.idx(A.idx(A.var("v"), A.lit_i(0)), A.lit_i(1)), A.lit_i(100)))]),
                    ("element-dynamic", [A.estmt(A.asg(A.idx(A.idx(A.var("v"), A.var("k")), A.lit_i(2)), A.lit_i(50)))]),
                    ("row", [A.estmt(A.asg(A.idx(A.var("v"), A.lit_i(1)), A.cons(row, [A.lit_i(j + 1) for j in range(t["n"])])))]),
                    ("whole", [A.estmt(A.asg(A.var("v"), A.bin_("*", A.var("v"), A.lit_i(2))))])]
            read = A.idx(A.idx(A.var("v"), A.lit_i(0)), A.lit_i(1))
        for name, stmts in muts:
            callee = A.func("m", [("v", t), ("k", INT)], comp, A.block(stmts + [A.ret(read)]))
            for shape in ("return-own", "twice", "through"):
                if shape == "return-own":
                    body = [A.decl("r", comp, A.call("m", [A.var("a"), A.var("k")])), A.ret(A.var("a"))]
                    funcs = [callee]
                elif shape == "twice":
                    body = [A.decl("b", t, A.var("a")), A.decl("r", comp, A.call("m", [A.var("b"), A.var("k")])),
                            A.decl("q", comp, A.call("m", [A.var("b"), A.lit_i(1)])), A.ret(A.var("b"))]
                    funcs = [callee]
                else:
                    mid = A.func("mid", [("v", t), ("k", INT)], comp, A.block([A.decl("r", comp, A.call("m", [A.var("v"), A.var("k")])),
                                                                              A.ret(A.bin_("+", A.var("r"), A.idx(A.var("v"), A.lit_i(0)) if t["k"] == "vec"
                                                                                           else A.idx(A.idx(A.var("v"), A.lit_i(0)), A.lit_i(1))))]))
                    body = [A.decl("r", comp, A.call("mid", [A.var("a"), A.var("k")])), A.ret(A.var("a"))]
                    funcs = [callee, mid]
                prog = A.prog([], funcs + [A.func("f", [("a", t), ("k", INT)], t, A.block(body), True)])
                g = nslgen.Gen(len(out) * 7919 + 13)
                inputs = [({"a": A.enc(g.value(t), t), "k": A.enc(kk, INT)}, {}) for kk in (0, 1)]
                out.append((prog, inputs))
    # ---- a vector argument whose COMPONENT type is converted for the callee (float vector -> int vector parameter and back): the
    # conversion produces the callee's value, the caller's variable keeps its own (fractions included)
    for n in (2, 3, 4):
        for src, dst in (("float", "int"), ("int", "float")):
            ts, td = A.vec(src, n), A.vec(dst, n)
            sumf = A.func("csum", [("v", td)], {"k": dst}, A.block([A.estmt(A.asg(A.idx(A.var("v"), A.lit_i(0)), A.lit_i(9))), A.ret(A.bin_("+", A.idx(A.var("v"), A.lit_i(0)), A.idx(A.var("v"), A.lit_i(n - 1))))]))
            vals = [j + 1.5 for j in range(n)] if src == "float" else [j + 2 for j in range(n)]
            for shape in ("param", "local", "twice"):
                if shape == "param":
                    body = [A.decl("r", {"k": dst}, A.call("csum", [A.var("a")])), A.ret(A.var("a"))]
                elif shape == "local":
                    body = [A.decl("b", ts, A.var("a")), A.decl("r", {"k": dst}, A.call("csum", [A.var("b")])), A.ret(A.bin_("+", A.var("b"), A.var("a")))]
                else:
                    body = [A.decl("r", {"k": dst}, A.call("csum", [A.var("a")])), A.decl("q", {"k": dst}, A.call("csum", [A.var("a")])), A.ret(A.bin_("*", A.var("a"), A.bin_("+", A.var("r"), A.var("q"))))]
                prog = A.prog([], [sumf, A.func("f", [("a", ts), ("k", INT)], ts if shape != "twice" or src == dst else (ts if src == "float" else td), A.block(body), True)])
                out.append((prog, [({"a": A.enc(vals, ts), "k": A.enc(0, INT)}, {})]))
    V, L, B, C = A.var, A.lit_i, A.bin_, A.call

    def entry(params, rt, stmts):
        return A.func("f", params, rt, A.block(stmts), True)

    def ints(*vals):
        return [({"n": A.enc(v, INT)}, {}) for v in vals]
    fact = A.func("fact", [("n", INT)], INT, A.block([A.if_(B("<=", V("n"), L(1)), A.block([A.ret(L(1))])), A.ret(B("*", V("n"), C("fact", [B("-", V("n"), L(1))])))]))
    fact2 = A.func("fact", [("n", INT)], INT, A.block([A.if_(B("<=", V("n"), L(1)), A.block([A.ret(L(1))])), A.ret(B("*", C("fact", [B("-", V("n"), L(1))]), V("n")))]))
    keep = A.func("s", [("n", INT)], INT, A.block([A.if_(B("<=", V("n"), L(0)), A.block([A.ret(L(0))])), A.decl("keep", INT, B("*", V("n"), L(3))),
                                                   A.decl("sub", INT, C("s", [B("-", V("n"), L(1))])), A.ret(B("+", V("keep"), V("sub")))]))
    keepp = A.func("s", [("n", INT), ("x", FLOAT)], FLOAT, A.block([A.if_(B("<=", V("n"), L(0)), A.block([A.ret(V("x"))])), A.decl("sub", FLOAT, C("s", [B("-", V("n"), L(1)), B("+", V("x"), A.lit_f(1, 1))])),
                                                                    A.estmt(A.asg(V("x"), B("+", V("x"), L(100)))), A.ret(B("+", B("+", V("sub"), V("n")), V("x")))]))
    fib = A.func("fib", [("n", INT)], INT, A.block([A.if_(B("<", V("n"), L(2)), A.block([A.ret(V("n"))])), A.ret(B("+", C("fib", [B("-", V("n"), L(1))]), C("fib", [B("-", V("n"), L(2))])))]))
    even = A.func("ev", [("n", INT)], INT, A.block([A.if_(B("==", V("n"), L(0)), A.block([A.ret(L(1))])), A.decl("t", INT, B("+", V("n"), L(10))), A.decl("r", INT, C("od", [B("-", V("n"), L(1))])), A.ret(B("+", B("*", V("r"), L(2)), V("t")))]))
    odd = A.func("od", [("n", INT)], INT, A.block([A.if_(B("==", V("n"), L(0)), A.block([A.ret(L(0))])), A.decl("t", INT, B("*", V("n"), L(7))), A.decl("r", INT, C("ev", [B("-", V("n"), L(1))])), A.ret(B("-", V("t"), V("r")))]))
    for fs, name in (([fact], "fact"), ([fact2], "fact"), ([keep], "s"), ([fib], "fib"), ([even, odd], "ev"), ([odd, even], "od")):
        out.append((A.prog([], fs + [entry([("n", INT)], INT, [A.decl("before", INT, B("+", V("n"), L(1))), A.decl("r", INT, C(name, [V("n")])), A.ret(B("+", B("*", V("r"), L(1000)), B("+", V("before"), V("n"))))])]), ints(0, 1, 2, 3, 5, 6)))
    out.append((A.prog([], [keepp, entry([("n", INT)], FLOAT, [A.ret(C("s", [V("n"), A.lit_f(1, 2)]))])]), ints(0, 1, 2, 4)))
    # nested and repeated calls; the callee reuses the caller's local names and overwrites its parameters
    h = A.func("h", [("n", INT), ("w", FLOAT)], FLOAT, A.block([A.decl("before", FLOAT, V("w")), A.estmt(A.asg(V("n"), B("+", V("n"), L(1)))), A.estmt(A.asg(V("w"), B("*", V("w"), L(2)))),
                                                                A.ret(B("+", B("*", V("n"), V("before")), V("w")))]))
    out.append((A.prog([], [h, entry([("n", INT)], FLOAT, [A.decl("before", FLOAT, A.lit_f(3, 1)), A.decl("w", FLOAT, C("h", [V("n"), V("before")])),
                                                          A.decl("x", FLOAT, C("h", [V("n"), C("h", [V("n"), V("w")])])), A.ret(B("+", B("+", V("x"), V("w")), B("+", V("before"), V("n"))))])]), ints(0, 2, -3)))
    # overloads by int / float / vector type with different bodies, called with exact and with convertible arguments
    ovi = A.func("ov", [("q", INT)], INT, A.block([A.ret(B("+", V("q"), L(1000)))]))
    ovf = A.func("ov", [("q", FLOAT)], INT, A.block([A.ret(L(2000))]))
    ovv = A.func("ov", [("q", A.vec("float", 2))], INT, A.block([A.ret(L(3000))]))
    ovu = A.func("ou", [("q", FLOAT)], INT, A.block([A.ret(B("+", L(4000), B(">", V("q"), L(1))))]))
    for order in ([ovi, ovf, ovv], [ovv, ovf, ovi], [ovf, ovi, ovv]):
        out.append((A.prog([], order + [ovu, entry([("n", INT)], INT, [A.decl("x", FLOAT, A.lit_f(5, 1)), A.decl("v", A.vec("float", 2), A.cons(A.vec("float", 2), [L(1), L(2)])),
                                                                       A.ret(B("+", B("+", C("ov", [V("n")]), B("*", C("ov", [V("x")]), L(3))), B("+", B("*", C("ov", [V("v")]), L(7)), C("ou", [V("n")]))))])]), ints(0, 5)))
    # parameters without a name (written as a type only): arguments are still bound by position
    pk = A.func("pick", [("unnamed_0", INT), ("b", INT)], INT, A.block([A.estmt(A.asg(V("b"), B("+", V("b"), L(1000)))), A.ret(V("b"))]))
    pk3 = A.func("pick3", [("a", FLOAT), ("unnamed_1", INT), ("c", INT)], FLOAT, A.block([A.ret(B("+", B("*", V("a"), L(100)), V("c")))]))
    out.append((A.prog([], [pk, pk3, entry([("n", INT)], FLOAT, [A.decl("x", INT, C("pick", [V("n"), B("+", V("n"), L(1))])),
                                                                  A.ret(B("+", V("x"), C("pick3", [A.lit_f(3, 1), V("n"), B("+", V("n"), L(2))])))])]), ints(3, 7)))
    # one function's local names are another function's parameter names (both definition orders): names are per function
    a1 = A.func("a1", [("q", INT)], INT, A.block([A.decl("t", INT, B("*", V("q"), L(2))), A.decl("w", INT, B("+", V("t"), L(1))), A.ret(V("w"))]))
    a2 = A.func("a2", [("t", INT), ("w", INT)], INT, A.block([A.estmt(A.asg(V("t"), B("+", V("t"), L(1)))), A.ret(B("+", B("*", V("t"), L(10)), V("w")))]))
    for order in ([a1, a2], [a2, a1]):
        out.append((A.prog([], order + [entry([("n", INT)], INT, [A.decl("t", INT, C("a1", [V("n")])), A.decl("w", INT, C("a2", [V("t"), V("n")])),
                                                                  A.ret(B("+", B("+", V("w"), C("a1", [V("t")])), V("t")))])]), ints(1, 4)))
    # a float literal / float value bound to an int parameter is converted (directly, and as the argument of a nested call)
    kp = A.func("keep", [("n", INT)], FLOAT, A.block([A.ret(B("*", V("n"), A.lit_f(1, 1)))]))
    dbl = A.func("dbl", [("q", INT)], INT, A.block([A.ret(B("*", V("q"), L(2)))]))
    out.append((A.prog([], [kp, dbl, entry([("n", INT)], FLOAT, [A.decl("x", FLOAT, A.lit_f(27, 3)), A.decl("a", FLOAT, C("keep", [A.lit_f(11, 2)])), A.decl("b", FLOAT, C("keep", [V("x")])),
                                                                  A.decl("c", FLOAT, C("keep", [C("dbl", [A.lit_f(7, 1)])])), A.decl("d", INT, C("dbl", [C("dbl", [B("+", V("x"), V("n"))])])),
                                                                  A.ret(B("+", B("+", V("a"), B("*", V("b"), L(10))), B("+", B("*", V("c"), L(100)), B("*", V("d"), L(1000)))))])]), ints(0, 2)))
    # one vector conversion against two scalar conversions: the candidate with fewer converted parameters runs
    f4, i4 = A.vec("float", 4), A.vec("int", 4)
    pa = A.func("pk", [("v", f4), ("a", INT), ("b", INT)], INT, A.block([A.ret(L(1))]))
    pb = A.func("pk", [("v", i4), ("a", FLOAT), ("b", FLOAT)], INT, A.block([A.ret(L(2))]))
    pc = A.func("pq", [("v", A.vec("float", 3)), ("a", INT), ("b", INT), ("c", INT)], INT, A.block([A.ret(L(1))]))
    pd = A.func("pq", [("v", A.vec("int", 3)), ("a", FLOAT), ("b", FLOAT), ("c", INT)], INT, A.block([A.ret(L(2))]))
    for order in ([pa, pb, pc, pd], [pd, pc, pb, pa]):
        out.append((A.prog([], order + [entry([("n", INT)], INT, [A.decl("v", i4, A.cons(i4, [V("n"), L(2), L(3), L(4)])), A.decl("w", A.vec("int", 3), A.cons(A.vec("int", 3), [V("n"), L(2), L(3)])),
                                                                  A.ret(B("+", B("*", C("pk", [V("v"), V("n"), L(5)]), L(10)), C("pq", [V("w"), V("n"), L(5), L(6)])))])]), ints(1, 3)))
    # overloads that differ in the number of parameters: a call reaches the one whose parameter count matches
    sc1 = A.func("sc", [("a", INT)], FLOAT, A.block([A.ret(B("*", V("a"), L(10)))]))
    sc2 = A.func("sc", [("a", INT), ("k", FLOAT)], FLOAT, A.block([A.ret(B("*", V("a"), V("k")))]))
    sc3 = A.func("sc", [("a", INT), ("k", FLOAT), ("z", INT)], FLOAT, A.block([A.ret(B("+", B("*", V("a"), V("k")), V("z")))]))
    for order in ([sc1, sc2, sc3], [sc3, sc2, sc1], [sc2, sc1, sc3]):
        out.append((A.prog([], order + [entry([("n", INT)], FLOAT, [
            A.decl("m", INT, L(4)), A.decl("r1", FLOAT, C("sc", [V("n")])), A.decl("r2", FLOAT, C("sc", [V("n"), V("m")])),
            A.decl("r3", FLOAT, C("sc", [V("n"), V("m"), L(7)])), A.decl("r4", FLOAT, C("sc", [V("n"), A.inc("m", "+", False)])),
            A.ret(B("+", B("+", V("r1"), B("*", V("r2"), L(100))), B("+", B("*", V("r3"), L(10000)), B("+", V("m"), V("r4")))))])]), ints(1, 3)))
    # a call whose arguments are all literals, executed repeatedly, to a callee that overwrites its parameters:
    # every activation starts from the literal values
    bump = A.func("bump", [("q", INT), ("w", FLOAT)], FLOAT, A.block([A.estmt(A.asg(V("q"), B("+", V("q"), L(1)))), A.estmt(A.casg("*", V("w"), L(2))), A.ret(B("+", V("q"), V("w")))]))
    out.append((A.prog([], [bump, entry([("n", INT)], FLOAT, [
        A.decl("acc", FLOAT, L(0)), A.for_(A.decl("i", INT, L(0)), B("<", V("i"), V("n")), A.inc("i", "+", False),
                                           A.block([A.estmt(A.casg("+", V("acc"), C("bump", [L(5), A.lit_f(3, 1)])))])),
        A.estmt(A.casg("+", V("acc"), C("bump", [L(5), A.lit_f(3, 1)]))), A.ret(V("acc"))])]), ints(0, 1, 3)))
    cd = A.func("cd", [("q", INT)], INT, A.block([A.decl("c", INT, L(0)), A.while_(B(">", V("q"), L(0)), A.block([A.estmt(A.asg(V("q"), B("-", V("q"), L(1)))), A.estmt(A.casg("+", V("c"), L(1)))])), A.ret(V("c"))]))
    out.append((A.prog([], [cd, entry([("n", INT)], INT, [
        A.decl("acc", INT, L(0)), A.decl("i", INT, L(0)),
        A.while_(B("<", V("i"), V("n")), A.block([A.estmt(A.casg("+", V("acc"), C("cd", [L(3)]))), A.estmt(A.asg(V("i"), B("+", V("i"), L(1))))])), A.ret(V("acc"))])]), ints(1, 2, 4)))
    return out


def gen_case(seed, i):
    g = nslgen.Gen(seed * 1000003 + i, FEAT)
    g.f["callee_writes_params"] = True
    prog = g.program()
    inputs = [g.inputs(prog) for _ in range(3)]
    return prog, inputs


def work(job):
    seed, lo, hi = job
    out = []
    fam = family() if lo < 0 else None
    for i in range(lo, hi):
        prog, inputs = fam[i + len(fam)] if fam is not None else gen_case(seed, i)
        src = A.pp(prog)
        rec = {"i": i, "prog": prog, "src": src, "runs": []}
        for opt in (False,):
            try:
                with common.time_limit(120):
                    st, r, info = common.compile_traced(src, {"optimize": opt})
            except common.CaseTimeout:
                st, r, info = "timeout", "timeout", {"failed_pass": None, "hook_ok": True}
            rec.update(compile=st, why=None if st == "ok" else str(r)[:160], failed_pass=info["failed_pass"], hook_ok=info["hook_ok"])
            if st != "ok":
                continue
            program = A.link(r)
            names = list(program.Functions.keys())
            for j, (args, gl) in enumerate(inputs):
                obs = vmtrace.run_traced(program, "f", {k: A.dec(v) for k, v in args.items()}, {k: A.dec(v) for k, v in gl.items()})
                obs["ret_repr"] = A.show_py(obs.get("ret"))
                obs["enters"] = [(names.index(fn) + 1 if fn in names else -1, a, d) for fn, a, d in obs["enters"]]
                rec["runs"].append({"j": j, "args": args, "globals": gl, "obs": obs})
        out.append(rec)
    return out


def run(ctx, args):
    n = 250 if ctx.tier == "quick" else 3000
    nf = len(family())
    jobs = [(ctx.seed, lo, min(n, lo + 25)) for lo in range(0, n, 25)] + [(ctx.seed, -nf + lo, -nf + min(nf, lo + 16)) for lo in range(0, nf, 16)]
    with mp.Pool(16) as pool:
        recs = [r for out in pool.map(work, jobs) for r in out]
    if any(r.get("hook_ok") is False for r in recs):
        raise common.Machinery("compiler hook silent (NSL_VERIF hook missing from the tree under test?)")
    progs, cases = [], []
    for r in recs:
        progs.append(r["prog"])
        for run_ in r["runs"]:
            cases.append({"id": f"{r['i']}/{run_['j']}", "p": len(progs), "entry": "f", "args": run_["args"], "globals": run_["globals"]})
    sem = {}
    for lo in range(0, len(cases), 3000):
        sem.update(semrun.run_sem(ctx, progs, cases[lo:lo + 3000]))
    counts = {}
    samples = []
    nontrivial = set()
    activations = 0
    returns_checked = 0
    for r in recs:
        fam = r["i"] < 0
        if r["compile"] != "ok":
            key = ("family-" if fam else "") + "rejects-program:" + (r.get("failed_pass") or ":".join(str(r.get("why")).split(":")[:2]))
            ctx.violation(key, f"the compiler refuses a well-typed program with calls ({r.get('why')})", {"source": r["src"], "i": r["i"]})
            continue
        for run_ in r["runs"]:
            s = sem[f"{r['i']}/{run_['j']}"]
            obs = run_["obs"]
            kind, detail = semrun.judge(s, obs)
            base = {"source": r["src"], "args": {k: A.dec(v) for k, v in run_["args"].items()},
                    "globals_before": {k: A.dec(v) for k, v in run_["globals"].items()}, "generator_index": r["i"], "seed": ctx.seed}
            returns_checked += obs.get("calls_checked", 0)
            # frame isolation on the implementation's states: judged whenever the program is inside the statement's domain
            if obs.get("isolation") and s["status"] not in ("ill",):
                v = obs["isolation"][0]
                ctx.violation("frame-isolation:" + v["what"], f"after the call to {v['callee']} returned, the {v['what']} of {v['fn']} changed from {A.show_py(v['before'])} to {A.show_py(v['after'])}",
                              dict(base, isolation=obs["isolation"][:3]))
                continue
            counts[kind] = counts.get(kind, 0) + 1
            if kind in ("unjudged", "defined-fail"):
                continue
            if kind != "agree":
                key = kind + (":" + obs["exc"] + ":" + obs["where"] if kind == "vm-error" else "")
                ctx.violation(("family-" if fam else "") + key, detail, dict(base, reference={k: s[k] for k in ("status", "ret", "globals", "steps")},
                                                                         vm={k: obs.get(k) for k in ("ok", "ret_repr", "exc", "msg", "where")}))
                continue
            # the activation sequence: callee index and bound argument values
            want = [(c["f"], c["args"]) for c in s["calls"]]
            got = obs["enters"][1:]
            activations += len(want)
            bad = None
            if len(want) != len(got) and len(obs["enters"]) < 4000:
                bad = f"{len(got)} activations on the VM, the language prescribes {len(want)}"
            else:
                for k, ((wf, wa), (gf, ga, _)) in enumerate(zip(want, got)):
                    if wf != gf:
                        bad = f"activation {k + 1}: the VM entered function #{gf}, the language selects #{wf} ({r['prog']['funcs'][wf - 1]['name']})"
                        break
                    if len(wa) != len(ga) or not all(A.same(x, y) for x, y in zip(wa, ga)):
                        bad = f"activation {k + 1} of {r['prog']['funcs'][wf - 1]['name']}: bound arguments {A.show_py(ga)}, the language prescribes {[semrun.show_spec(x) for x in wa]}"
                        break
            if bad:
                ctx.violation("activation-sequence", bad, base)
                continue
            if len(want) >= 2:
                nontrivial.add(r["i"])
            if len(samples) < 3 and len(want) >= 3:
                samples.append({"source": r["src"], "args": base["args"], "prescribed_return": semrun.show_spec(s["ret"]),
                                "prescribed_activations": [(r["prog"]["funcs"][f - 1]["name"], [semrun.show_spec(x) for x in a]) for f, a in want][:6]})
    judged = counts.get("agree", 0)
    if judged < len(cases) // 4 and not ctx.violations:
        raise common.Machinery(f"only {judged} of {len(cases)} runs were judged")
    if returns_checked == 0:
        raise common.Machinery("the VM call tracer observed no call return (hook not firing?)")
    return common.finish(
        ctx, level="model_checking", evaluations=len(cases), distinct_nontrivial=len(nontrivial),
        rule=f"deterministic family of {nf} programs (6 vector/matrix parameter types x ways to modify the parameter x 3 caller shapes) and {n} seeded call-heavy programs "
             "(0-3 helpers, overload pair, bounded recursion with a value live across the call, callees assigning to parameters, vector parameters) x inputs; "
             "NslSem in TLC prescribes result and activation sequence (FrameIsolation, CallDiscipline checked on every behaviour); the VM runs with the call tracer: "
             "activation sequence compared, and the caller's arguments and named locals compared across every call return. "
             "distinct_nontrivial = programs with a judged run of at least two callee activations.",
        samples=samples or [{"note": "no run with three activations in this batch"}], traces_validated=judged,
        assumptions=["array/struct parameters written by a callee are outside the statement (the reference marks them ood and the generator does not produce them)",
                     "runs the reference ends ood / fuel / divzero / oob are not judged for values; frame isolation is judged on every run"],
        extra={"outcome_counts": counts, "activations_compared": activations, "call_returns_checked_for_isolation": returns_checked})


replay = common.replay_vm_case
