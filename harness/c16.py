"""C16 - separately compiled, imported and linked modules behave like one program.

Binding (A): spec/Linker.tla explores every import DAG on N modules, every sequence of
distinct modules the host can add, with and without a clash of function names, and every
order in which pending imports can be loaded, checking LoadedOnce, OrderIndependent and
ClashRejected on the specification, and prints every terminal state.  The driver writes the
modules of each DAG as NSL sources (imports before or after the other items), compiles each
with the real front end `nslc.py -o` in a per-DAG directory, links them in the prescribed
order with the real Linker and a counting loader, and compares: accepted / rejected, how
often each module was loaded, and the values the VM returns - against the same functions
compiled as ONE module.  The command line path (nslr.py run) is exercised once per DAG.
"""
import contextlib
import io
import multiprocessing as mp
import os
import pickle
import re
import subprocess
import sys

import common

PRIMES = [0, 3, 5, 7, 11, 13]


def fname(m, clash, n):
    """name of module m's exported function; clash variant "export": module n reuses module 1's name"""
    return "f1" if (clash == "export" and m == n and n > 1) else f"f{m}"


def mname(j, naming="flat"):
    """import name of module j: flat (m<j>) or one directory per module with the same file name in each (d<j>/util)"""
    return f"m{j}" if naming == "flat" else f"d{j}/util"


def module_source(m, dag, clash, n, single=False, naming="flat"):
    """module m: an exported function that calls the exported function and BOTH private overloads of every imported module,
    two private overloads h<m>(int) / h<m>(float); in the clash variant "helper" modules 1 and n both define a private bias(int)"""
    imps = dag[m - 1]
    calls = "".join(f" + {fname(j, clash, n)}(a + {m}) + h{j}(a) * 1000 + h{j}(0.5) * 100000" for j in imps)
    helper = ""
    if clash == "helper" and n > 1 and m in (1, n):
        helper = f"function bias(int q) -> int\n{{\n  return q * {m + 1};\n}}\n"
        calls += " + bias(a)"
    # one overloaded name across two modules: the last module defines pick(int), the first one pick(float); a call with an int argument
    # in the first module reaches the imported overload when that module is imported directly
    if not clash and n > 1 and m == n:
        helper += f"function pick(int q) -> int\n{{\n  return q + 700;\n}}\n"
    if not clash and n > 1 and m == 1:
        helper += "function pick(float q) -> int\n{\n  return 5;\n}\n"
        calls += " + pick(a) + pick(0.5) * 3" if n in imps else " + pick(0.5) * 3"
    fn = (f"function h{m}(int q) -> int\n{{\n  return q + {m};\n}}\nfunction h{m}(float q) -> int\n{{\n  return {10 + m};\n}}\n" + helper +
          f"export function {fname(m, clash, n)}(int a) -> int\n{{\n  int t = a * {PRIMES[m]};\n  return t{calls} + {m};\n}}\n")
    if single:
        return fn
    imports = "".join(f'import "{mname(j, naming)}";\n' for j in imps)
    # imports before the other items for odd modules, after them for even ones
    return imports + fn if m % 2 == 1 else fn + imports


class CountingLoader:
    def __init__(self):
        self.counts = {}

    def Load(self, name):
        from nsl import LinearIR
        self.counts[name] = self.counts.get(name, 0) + 1
        return LinearIR.FilesystemModuleLoader().Load(name)


def work(job):
    key, dag, clash, cases, repo, scratch = job[:6]
    naming = job[6] if len(job) > 6 else "flat"
    n = len(dag)
    from nsl import LinearIR, VM
    d = os.path.join(scratch, key)
    os.makedirs(d, exist_ok=True)
    out = []
    compiled = {}
    for m in range(n, 0, -1):
        src = module_source(m, dag, clash, n, naming=naming)
        os.makedirs(os.path.dirname(os.path.join(d, mname(m, naming))), exist_ok=True)
        open(os.path.join(d, f"{mname(m, naming)}.nsl"), "w").write(src)
        p = subprocess.run([sys.executable, os.path.join(repo, "nslc.py"), f"{mname(m, naming)}.nsl", "-o", f"{mname(m, naming)}.nslir"], cwd=d, capture_output=True, text=True,
                           env=dict(os.environ, PYTHONPATH=repo))
        compiled[m] = p.returncode == 0 and os.path.exists(os.path.join(d, f"{mname(m, naming)}.nslir"))
        if not compiled[m]:
            compiled[m] = False
            out.append((None, f"compile-fails:m{m}", (p.stdout + p.stderr)[-300:]))
    os.chdir(d)
    cli_done = False
    for c in cases:
        order, want, outcome, loads = c["order"], c["want"], c["outcome"], c["loads"]
        case = {"dag": dag, "clash": clash, "host_adds": order, "module_names": naming, "sources": {mname(m, naming): module_source(m, dag, clash, n, naming=naming) for m in want}}
        imported_somewhere = {j for m in want for j in dag[m - 1]}
        if set(order) & imported_somewhere:
            out.append((None, "unjudged-host-adds-an-imported-module", None))
            continue
        missing = [m for m in want if not compiled[m]]
        if missing:
            if outcome == "rejected":
                out.append((None, "ok-rejected-at-compile-time", None))
            else:
                out.append((f"module-does-not-compile:{len(dag[missing[0] - 1])}-imports", f"module m{missing[0]} of a clash-free program does not compile on its own: {[o[2] for o in out if o[1] == f'compile-fails:m{missing[0]}'][:1]}", case))
            continue
        loader = CountingLoader()
        try:
            with contextlib.redirect_stdout(io.StringIO()):
                linker = LinearIR.Linker(loader=loader)
                for m in order:
                    linker.AddModule(pickle.load(open(f"{mname(m, naming)}.nslir", "rb")))
                program = linker.Link()
            got = "done"
        except BaseException as e:  # noqa
            got = "rejected"
            err = f"{type(e).__name__}: {e}"[:120]
        if outcome == "rejected":
            if got == "done":
                out.append(("clash-accepted", f"two modules define the same function ({'exported f1' if clash == 'export' else 'private bias(int)'}); linking them (host adds {order}) succeeds instead of being rejected", case))
            else:
                out.append((None, "ok-rejected", None))
            continue
        if got != "done":
            out.append((f"link-fails:{err.split(':')[0]}", f"host adds {order}: linking a clash-free program fails ({err})", case))
            continue
        bad_loads = {mname(m, naming): loader.counts.get(mname(m, naming), 0) for m in want if loader.counts.get(mname(m, naming), 0) != loads[m - 1]}
        extra = {k: v for k, v in loader.counts.items() if k not in {mname(m, naming) for m in want}}
        if bad_loads or extra:
            out.append(("load-count", f"host adds {order}: modules loaded {dict(loader.counts)}, the reference loads each imported module exactly once ({ {f'm{m}': loads[m - 1] for m in want} })", case))
            continue
        # behaviour: against the same functions compiled as one module
        single = "".join(module_source(m, dag, clash, n, single=True) for m in sorted(want))
        st, r = common.compile_source(single)
        if st != "ok":
            out.append((None, "reference-single-module-rejected", None))
            continue
        ref = common.link_vm(r)
        vm = VM.VirtualMachine(program)
        okv = True
        for m in order:
            for a in (0, 5):
                try:
                    with contextlib.redirect_stdout(io.StringIO()):
                        v1 = vm.Invoke(fname(m, clash, n), a=a)
                        v0 = ref.Invoke(fname(m, clash, n), a=a)
                except BaseException as e:  # noqa
                    v1, v0 = f"{type(e).__name__}: {e}"[:80], "?"
                if v1 != v0 or isinstance(v1, str):
                    out.append(("value-differs", f"host adds {order}: f{m}({a}) = {v1!r} in the linked program, {v0!r} when the same functions are one module", case))
                    okv = False
                    break
            if not okv:
                break
        if okv:
            out.append((None, "ok-linked", None))
            if not cli_done and order == [1]:
                cli_done = True
                p = subprocess.run([sys.executable, os.path.join(repo, "nslr.py"), "run", f"{mname(1, naming)}.nslir", fname(1, clash, n), "5"], cwd=d, capture_output=True, text=True,
                                   env=dict(os.environ, PYTHONPATH=repo))
                mm = re.search(r"=\s*(-?\d+)", p.stdout)
                with contextlib.redirect_stdout(io.StringIO()):
                    want_v = ref.Invoke(fname(1, clash, n), a=5)
                if p.returncode != 0 or not mm or int(mm.group(1)) != want_v:
                    out.append(("cli-differs", f"nslr.py run m1.nslir {fname(1, clash, n)} 5 prints {p.stdout.strip()[-80:]!r} (exit {p.returncode}), the one-module program gives {want_v}", case))
                else:
                    out.append((None, "ok-cli", None))
    os.chdir("/")
    return out


def history(job):
    """One process links a sequence of programs with the DEFAULT linker / loader: main imports "lib"; the library differs from
    program to program (another directory, then the first directory again with lib re-stored).  Each link must see the
    library that is stored at that moment: the linked program behaves like main + lib compiled as one module."""
    repo, scratch = job
    from nsl import LinearIR, VM
    out = []
    steps = [("pA", "q * 2"), ("pB", "q + 100"), ("pA", "q - 7"), ("pB", "q + 100")]
    for k, (dirname, body) in enumerate(steps):
        d = os.path.join(scratch, "history", dirname)
        os.makedirs(d, exist_ok=True)
        lib = f"export function lib(int q) -> int\n{{\n  return {body};\n}}\n"
        main = 'import "lib";\nexport function f(int a) -> int\n{\n  return lib(a) + 1;\n}\n'
        open(os.path.join(d, "lib.nsl"), "w").write(lib)
        open(os.path.join(d, "main.nsl"), "w").write(main)
        case = {"history": steps[:k + 1], "directory": dirname, "lib": lib, "main": main}
        ok = True
        for name in ("lib", "main"):
            p = subprocess.run([sys.executable, os.path.join(repo, "nslc.py"), f"{name}.nsl", "-o", f"{name}.nslir"], cwd=d, capture_output=True, text=True,
                               env=dict(os.environ, PYTHONPATH=repo))
            if p.returncode != 0:
                out.append((f"history-compile-fails:{name}", f"step {k}: {name} does not compile ({(p.stdout + p.stderr)[-120:]})", case))
                ok = False
        if not ok:
            continue
        os.chdir(d)
        try:
            with contextlib.redirect_stdout(io.StringIO()):
                linker = LinearIR.Linker()
                linker.AddModule(pickle.load(open("main.nslir", "rb")))
                got = VM.VirtualMachine(linker.Link()).Invoke("f", a=5)
        except BaseException as e:  # noqa
            got = f"{type(e).__name__}: {e}"[:80]
        st, r = common.compile_source(lib + main.replace('import "lib";\n', ""))
        with contextlib.redirect_stdout(io.StringIO()):
            want = common.link_vm(r).Invoke("f", a=5)
        if got != want:
            out.append(("history-stale-module", f"step {k} of one process ({[s_[0] for s_ in steps[:k + 1]]}): f(5) = {got!r} in the linked program, {want!r} for the library stored at that moment", case))
        else:
            out.append((None, "ok-history", None))
    os.chdir("/")
    return out


def umbrella(job):
    """A module that only imports (no function, no global of its own) still brings in what it imports: as the only module the
    host adds, in the middle of a chain, and next to another root."""
    repo, scratch = job
    from nsl import LinearIR, VM
    out = []
    d = os.path.join(scratch, "umbrella")
    os.makedirs(d, exist_ok=True)
    srcs = {"ub": "export function fb(int a) -> int\n{\n  return a * 3 + 1;\n}\n",
            "uc": "export function fc(int a) -> int\n{\n  return a * 5 + 2;\n}\n",
            "uu": 'import "ub";\nimport "uc";\n',
            "ua": 'import "uu";\nexport function fa(int a) -> int\n{\n  return a + 7;\n}\n',
            "ur": "export function fr(int a) -> int\n{\n  return a - 1;\n}\n"}
    for name in ("ub", "uc", "uu", "ua", "ur"):
        open(os.path.join(d, name + ".nsl"), "w").write(srcs[name])
        p = subprocess.run([sys.executable, os.path.join(repo, "nslc.py"), name + ".nsl", "-o", name + ".nslir"], cwd=d, capture_output=True, text=True, env=dict(os.environ, PYTHONPATH=repo))
        if p.returncode != 0 or not os.path.exists(os.path.join(d, name + ".nslir")):
            out.append((None, "unjudged-umbrella-module-does-not-compile:" + name, None))
            return out
    os.chdir(d)
    for adds, expect in ((["uu"], {"fb": 3 * 4 + 1, "fc": 5 * 4 + 2}), (["ua"], {"fa": 11, "fb": 13, "fc": 22}), (["ur", "uu"], {"fr": 3, "fb": 13}), (["uu", "ur"], {"fr": 3, "fc": 22})):
        case = {"host_adds": adds, "sources": srcs}
        try:
            with contextlib.redirect_stdout(io.StringIO()):
                linker = LinearIR.Linker()
                for m in adds:
                    linker.AddModule(pickle.load(open(m + ".nslir", "rb")))
                vm = VM.VirtualMachine(linker.Link())
                got = {f: vm.Invoke(f, a=4) for f in expect}
        except BaseException as e:  # noqa
            got = f"{type(e).__name__}: {e}"[:80]
        if got != expect:
            out.append(("umbrella-module", f"host adds {adds}: the import-only module uu imports ub and uc; expected {expect}, got {got}", case))
        else:
            out.append((None, "ok-umbrella", None))
    os.chdir("/")
    return out


def action_text(path):
    """the definitions of the linker's actions in a module, normalised (LinkerInd writes Def(clash, m) for Defs(clash)[m])"""
    import re
    text = open(path).read()
    out = {}
    for name in ("Take(m)", "HostAdd", "StartLink", "LoadImport(m)", "Finish", "Next"):
        m = re.search(r"^" + re.escape(name) + r" ==(.*?)(?=^\S)", text, re.S | re.M)
        if not m:
            raise common.Machinery(f"{path}: no definition of {name}")
        out[name] = re.sub(r"\s+", " ", re.sub(r"Defs\(clash\)\[(\w+)\]", r"Def(clash, \1)", m.group(1))).strip()
    return out


def apalache_step(ctx):
    """thorough tier: the inductive invariant of spec/LinkerInd.tla (N = 6, every DAG / order / state) discharged by Apalache"""
    scratch = str(ctx.scratch / "apalache_linker")
    r = subprocess.run([os.path.join(os.path.dirname(os.path.dirname(os.path.abspath(__file__))), "tools", "apalache_linker.sh"), scratch],
                       capture_output=True, text=True, timeout=4000)
    lines = [l for l in r.stdout.splitlines() if l.strip()]
    if r.returncode == 1:
        raise common.Machinery("LinkerInd: Apalache / TLC found a counterexample to the inductive invariant (a problem of the specification, not of the code):\n" + "\n".join(lines))
    return {"exit": r.returncode, "steps": lines}


def run(ctx, args):
    quick = ctx.tier == "quick"
    n = 3 if quick else 4
    spec_dir = os.path.join(os.path.dirname(os.path.dirname(os.path.abspath(__file__))), "spec")
    if action_text(os.path.join(spec_dir, "Linker.tla")) != action_text(os.path.join(spec_dir, "LinkerInd.tla")):
        raise common.Machinery("spec/Linker.tla and spec/LinkerInd.tla define different actions")
    apalache = None if quick else apalache_step(ctx)
    cfg = f"CONSTANTS N = {n} WithClash = TRUE RootOnly = FALSE\nSPECIFICATION FairSpec\nPROPERTY Terminates\nINVARIANT LoadedOnce\nINVARIANT OrderIndependent\nINVARIANT ClashRejected\nINVARIANT Report\nCHECK_DEADLOCK FALSE\n"
    res = ctx.tlc("Linker", cfg, timeout=3000)
    records = list(res.records)
    deep = []
    if quick:
        # one more module, the host adding the root only: every import DAG on 4 modules (longer chains, skewed diamonds)
        res4 = ctx.tlc("Linker", cfg.replace(f"N = {n}", "N = 4").replace("WithClash = TRUE RootOnly = FALSE", "WithClash = FALSE RootOnly = TRUE"), timeout=3000)
        seen4 = set()
        for r in res4.records:
            if str(r["dag"]) not in seen4:
                seen4.add(str(r["dag"]))
                deep.append(r)
        if len(deep) != 64:
            raise common.Machinery(f"expected 64 DAGs on 4 modules, got {len(deep)}")
    groups = {}
    seen = set()
    for r in records:
        k = (str(r["dag"]), r["clash"], tuple(r["order"]))
        if k in seen:
            continue                      # the same case reached through another loading order: same terminal outcome (OrderIndependent)
        seen.add(k)
        groups.setdefault((str(r["dag"]), r["clash"]), []).append(r)
    ndag = 2 ** (n * (n - 1) // 2)
    norders = sum(__import__("math").perm(n, k) for k in range(1, n + 1))
    if len(seen) != ndag * 2 * norders:
        raise common.Machinery(f"expected {ndag * 2 * norders} cases from TLC, got {len(seen)}")
    scratch = str(ctx.scratch / "c16")
    jobs = []
    for i, ((dagkey, clash), cases) in enumerate(sorted(groups.items(), key=lambda x: str(x[0]))):
        if clash:
            # the clash of names is rendered in two ways: two exported functions f1, or two private helpers bias(int)
            jobs.append((f"dag{i}e", cases[0]["dag"], "export", cases, str(ctx.repo), scratch))
            jobs.append((f"dag{i}h", cases[0]["dag"], "helper", cases, str(ctx.repo), scratch))
        else:
            jobs.append((f"dag{i}", cases[0]["dag"], "", cases, str(ctx.repo), scratch))
            # the same program with one directory per module and the same file name in each: a module is identified by its import name
            jobs.append((f"dag{i}d", cases[0]["dag"], "", [c for c in cases if c["order"] == [1]], str(ctx.repo), scratch, "dirs"))
    for i, r in enumerate(deep):
        jobs.append((f"deep{i}", r["dag"], "", [r], str(ctx.repo), scratch))
    with mp.Pool(16) as pool:
        results = pool.map(work, jobs)
        results += pool.map(history, [(str(ctx.repo), scratch)])
        results += pool.map(umbrella, [(str(ctx.repo), scratch)])
    counts = {}
    for out in results:
        for key, what, case in out:
            if key is None:
                counts[what.split(":")[0]] = counts.get(what.split(":")[0], 0) + 1
            else:
                ctx.violation(key, what, case)
    if counts.get("ok-history", 0) != 4 and not ctx.violations:
        raise common.Machinery("history scenario did not run")
    if counts.get("ok-linked", 0) == 0 and not ctx.violations:
        raise common.Machinery("vacuous run: nothing linked")
    multi = sum(1 for k in seen if len(k[2]) > 1)
    return common.finish(
        ctx, level="model_checking", evaluations=len(seen), distinct_nontrivial=multi,
        rule=f"Linker.tla explores all {ndag} import DAGs on {n} modules x clash / no clash x all {norders} sequences of distinct modules the host can add x all loading orders "
             f"({len(seen)} cases; invariants LoadedOnce, OrderIndependent, ClashRejected and, under weak fairness, the liveness property Terminates checked); every case is replayed with nslc.py-compiled modules, the real Linker and a counting loader; "
             "outcome, load counts and VM values (against the closure compiled as one module) compared; nslr.py run once per DAG. "
             + ("Also all 64 DAGs on 4 modules with the host adding the root only; " if quick else "")
             + "every clash-free DAG once more with one directory per module and the same file name in each; a history of four links in one process with the default loader "
             "(the library re-stored and replaced between links); an import-only module as root, in mid-chain and next to another root; one overloaded name split over the first and the last module. distinct_nontrivial = cases in which the host adds more than one module.",
        samples=[{"dag": c["dag"], "clash": c["clash"], "order": c["order"], "prescribed": c["outcome"], "loads": c["loads"]} for g in list(groups.values())[3::max(1, len(groups) // 3)][:3] for c in g[:1]],
        exhaustive=True, traces_validated=counts.get("ok-linked", 0) + counts.get("ok-rejected", 0),
        assumptions=["not judged: the host adds a module that another added module also imports (the linker cannot know that an object it was given is the module of that name)",
                     "imported modules have no global variables", "rejection = any exception from AddModule / Link, or a module that does not compile"],
        extra={"outcome_counts": counts, "apalache_inductive_invariant": apalache if apalache is not None else
               "thorough tier only: tools/apalache_linker.sh discharges IndInv of spec/LinkerInd.tla for N = 6 (Init => IndInv, IndInv /\\ Next => IndInv', IndInv => the three invariants)"})
