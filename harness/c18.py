"""C18 - compilation is deterministic and independent of earlier compilations.

Histories from TLC + trace validation: spec/CompileHistory.tla in enumeration mode generates
every sequence of compilation requests (source x options from a small library chosen to
share names between sources: same struct name with different fields, overloads, imports,
vectors, wasm-able functions) up to a length.  The driver replays each sequence in a FRESH
process (fresh Compiler() per request) under several PYTHONHASHSEED values and records, per
request, the digest of the IR listing and of the wasm bytes.  The recorded events are then
consumed by the same specification in trace mode: the digest of a request must be the one
recorded the first time the request was seen - in any process, at any position, under any
hash seed.
"""
import json
import os
import random
import subprocess
import sys
from concurrent.futures import ThreadPoolExecutor

import common

SOURCES = {
    "plain": "export function f(int a, int b) -> int\n{\n  int c = a * 3 + b;\n  return c - a / 2;\n}\n",
    "struct_a": "struct P\n{\n  int a;\n  int b;\n}\nexport function f(int a) -> int\n{\n  P p;\n  p.a = a;\n  p.b = 2;\n  return p.a + p.b;\n}\n",
    "struct_b": "struct P\n{\n  float x;\n  float y;\n  float z;\n}\nexport function f(float a) -> float\n{\n  P p;\n  p.x = a;\n  return p.x + p.z;\n}\n",
    "over": "function g(int q) -> int\n{\n  return q + 1;\n}\nfunction g(float q) -> int\n{\n  return 2;\n}\nexport function f(int a, float b) -> int\n{\n  return g(a) * 10 + g(b);\n}\n",
    "vec": "float4 gv;\nexport function f(float4 p, float s) -> float4\n{\n  p.xz = float2(s, 2.5);\n  gv = p * s;\n  return gv + p;\n}\n",
    "wasmable": "export function f(float a, float b, int c) -> int\n{\n  return (a < b) + c * 2 + (a > b);\n}\nexport function h(int a) -> int\n{\n  return a * 64 - 3;\n}\n",
    "imp": "import \"std\";\nexport function f(float a, float b) -> float\n{\n  return dot(float4(a, b, a, b));\n}\n",
    "loop": "int total;\nexport function f(int n) -> int\n{\n  for (int i = 0; i < n; ++i)\n  {\n    if (i % 2 == 0)\n    {\n      continue;\n    }\n    total += i;\n  }\n  return total;\n}\n",
    # private (name-mangled) functions with long parameter lists; called, and wasm-able
    "private3": "function lerp(float a, float b, float t) -> float\n{\n  return a + (b - a) * t;\n}\nfunction pick(int a, int b, int c, int d, int e) -> int\n{\n  return a + b * c - d + e;\n}\n"
                "export function f(float a, float b) -> float\n{\n  return lerp(a, b, 0.5) + pick(1, 2, 3, 4, 5);\n}\n",
    # one source declares globals whose names another source uses as a parameter and as a local
    "globals_lb": "int level;\nint bias;\nexport function f(int a) -> int\n{\n  level = a;\n  bias = a * 2;\n  return level + bias;\n}\n",
    # parameters without names (the compiler invents names for them)
    "unnamed": "function q(int, int b) -> int\n{\n  return b * 2;\n}\nexport function f(int a, float) -> int\n{\n  return q(a, a + 1);\n}\n",
    # two imported modules that both define helper(int) (different result types): whatever the verdict, it is the same every time
    "twolibs": "import \"liba\";\nimport \"libb\";\nexport function f(int a) -> float\n{\n  return helper(a) + 1;\n}\n",
    "twolibs_ok": "import \"liba\";\nimport \"libb\";\nexport function f(int a) -> float\n{\n  return onlya(a) + onlyb(a);\n}\n",
    # the same mask stored through on vectors of different widths
    "swzw4": "export function f(float4 p, float2 q) -> float4\n{\n  p.xy = q;\n  p.zw = q;\n  return p;\n}\n",
    "swzw2": "export function f(float2 p, float2 q) -> float2\n{\n  p.xy = q;\n  return p;\n}\n",
    "swzw3": "export function f(float3 p, float2 q) -> float3\n{\n  p.xy = q;\n  p.zx = q;\n  return p.zyx;\n}\n",
    # a source that imports a library which exists in two versions (the request says which one is on disk)
    "libdep": "import \"libc\";\nexport function f(int a) -> float\n{\n  return helper(a) + 1;\n}\n",
    # signed and unsigned integer division / comparison for the wasm backend (the opcode choice of one must not leak into the other)
    "wasm_u": "export function f(uint a, uint b) -> uint\n{\n  return a / b + a;\n}\nexport function h(uint a, uint b) -> int\n{\n  return a < b;\n}\n",
    "wasm_s": "export function f(int a, int b) -> int\n{\n  return a / b + (a < b) + (a > 3);\n}\n",
    # a source of more than 16 KiB and a short, deeply nested one (whatever its verdict, it is the same at every position)
    "huge": "".join(f"function k{j}(int a, int b) -> int\n{{\n  int c = a * {j} + b;\n  return c - a / 2 + {j};\n}}\n" for j in range(260)) + "export function f(int a) -> int\n{\n  return k1(a, 2) + k259(a, 3);\n}\n",
    "deep": "export function f(int a) -> int\n{\n  return " + "a + (" * 260 + "a + a" + ")" * 260 + ";\n}\n",
    "params_lb": "export function f(int level, int n) -> int\n{\n  int bias = n * 2;\n  bias += level;\n  return level + bias;\n}\n",
}
REQUESTS = [(n, {}) for n in SOURCES if n != "libdep"] + [("libdep", {"_lib": "v1"}), ("libdep", {"_lib": "v2"})] + [(n, {"optimize": True}) for n in ("plain", "struct_a", "struct_b", "loop", "imp")] + \
    [("wasm_u", {"wasm": True}), ("wasm_s", {"wasm": True}), ("wasmable", {"wasm": True}), ("plain", {"wasm": True}), ("wasmable", {"wasm": True, "optimize": True}), ("private3", {"wasm": True})]


def replay(job):
    hist, seed, repo, cwd, worker = job
    spec = [(SOURCES[REQUESTS[r - 1][0]], REQUESTS[r - 1][1]) for r in hist]
    env = dict(os.environ, PYTHONHASHSEED=str(seed), NSL_VERIF="1")
    try:
        p = subprocess.run([sys.executable, worker, repo, json.dumps(spec)], capture_output=True, text=True, env=env, cwd=cwd, timeout=600)
        out = json.loads(p.stdout.strip().splitlines()[-1])
    except BaseException as e:  # noqa
        return (hist, seed, None, f"{type(e).__name__}: {e}"[:200])
    return (hist, seed, out, None)


def run(ctx, args):
    quick = ctx.tier == "quick"
    nreq = len(REQUESTS)
    maxlen = 2 if quick else 3
    cfg = f'CONSTANTS Mode = "enum" NReq = {nreq} MaxLen = {maxlen}\nINIT Init\nNEXT Next\nINVARIANT ReportEnum\nCHECK_DEADLOCK FALSE\n'
    res = ctx.tlc("CompileHistory", cfg, timeout=3000)
    hists = [r["hist"] for r in res.records]
    want = sum(nreq ** k for k in range(1, maxlen + 1))
    if len(hists) != want:
        raise common.Machinery(f"expected {want} histories from TLC, got {len(hists)}")
    rnd = random.Random(ctx.seed)
    if not quick:
        # all histories of length 3 would be nreq^3 fresh processes per hash seed: every history of length <= 2 and a seeded sample of 2500 of length 3
        three = [h for h in hists if len(h) == 3]
        hists = [h for h in hists if len(h) < 3] + rnd.sample(three, min(2500, len(three)))
    if quick:
        # every history of length <= 2, plus a seeded sample of length-3 histories
        hists += [[rnd.randint(1, nreq) for _ in range(3)] for _ in range(120)]
    # std.nslir for the importing source, compiled once by the real front end (not part of any history)
    cwd = str(ctx.scratch / "c18cwd")
    os.makedirs(cwd, exist_ok=True)
    p = subprocess.run([sys.executable, str(ctx.repo / "nslc.py"), str(ctx.repo / "nsl" / "stdlib.nsl"), "-o", "std.nslir"], cwd=cwd, capture_output=True, text=True,
                       env=dict(os.environ, PYTHONHASHSEED="0"))
    if not os.path.exists(os.path.join(cwd, "std.nslir")):
        raise common.Machinery("could not build std.nslir with nslc.py: " + p.stdout[-200:] + p.stderr[-200:])
    for name, text in (("liba", "export function helper(int a) -> int\n{\n  return a + 1;\n}\nexport function onlya(int a) -> int\n{\n  return a * 3;\n}\n"),
                       ("libc_v1", "export function helper(int a) -> int\n{\n  return a * 2;\n}\n"),
                       ("libc_v2", "export function helper(float a) -> float\n{\n  return a * 0.5;\n}\n"),
                       ("libb", "export function helper(int a) -> float\n{\n  return a * 0.5;\n}\nexport function onlyb(int a) -> float\n{\n  return a * 0.25;\n}\n")):
        open(os.path.join(cwd, name + ".nsl"), "w").write(text)
        p = subprocess.run([sys.executable, str(ctx.repo / "nslc.py"), name + ".nsl", "-o", name + ".nslir"], cwd=cwd, capture_output=True, text=True, env=dict(os.environ, PYTHONHASHSEED="0"))
        if not os.path.exists(os.path.join(cwd, name + ".nslir")):
            raise common.Machinery(f"could not build {name}.nslir with nslc.py: " + p.stdout[-200:] + p.stderr[-200:])
    seeds_single = [0, 1, 2, 5, 7] if quick else [0, 1, 2, 3, 4, 5, 6, 7, 10, 42, 1234, 99999]
    seeds_long = [0, 7] if quick else [0, 7, 42]
    worker = str(common.VERIF / "harness" / "c18_worker.py")
    jobs = []
    for k, h in enumerate(hists):
        for j, s in enumerate(seeds_single if len(h) == 1 else seeds_long):
            if quick and len(h) > 1 and j > 0 and (k + ctx.seed) % 3 != 0:
                continue            # quick tier: every history under the first hash seed, a third of them under the second one as well
            jobs.append((h, s, str(ctx.repo), cwd, worker))
    with ThreadPoolExecutor(16) as ex:
        outs = list(ex.map(replay, jobs))
    events = []
    for pid, (h, s, out, err) in enumerate(outs):
        if out is None or len(out) != len(h):
            raise common.Machinery(f"worker process failed for history {h} seed {s}: {err}")
        for pos, (r, d) in enumerate(zip(h, out)):
            events.append({"proc": pid, "pos": pos + 1, "req": r, "digest": d, "seed": s, "earlier": h[:pos]})
    rejected = {e["req"] for e in events if e["digest"] in ("rejected", "exit") or e["digest"].startswith("raise")}
    # ---- trace validation by the specification
    path = ctx.tmp("c18-trace.json")
    path.write_text(json.dumps(events))
    cfg2 = f'CONSTANTS Mode = "trace" NReq = {nreq} MaxLen = {maxlen}\nINIT Init\nNEXT Next\nINVARIANT FunctionOfInput\nINVARIANT ReportTrace\nPROPERTY Stable\nCHECK_DEADLOCK FALSE\n'
    res2 = ctx.tlc("CompileHistory", cfg2, env={"BATCH": str(path)}, timeout=3000, workers=1)
    final = [r for r in res2.records if r["bad"] or r["consumed"] == len(events)]
    if not final:
        raise common.Machinery("trace validation did not reach the end of the trace")
    v = final[-1]
    if v["bad"]:
        e, first = v["bad"]
        name, opts = REQUESTS[e["req"] - 1]
        def where(x):
            return f"process {x['proc']} (PYTHONHASHSEED={x['seed']}) after compiling {[REQUESTS[r - 1][0] for r in x['earlier']]}"
        ctx.violation(f"digest-differs:{name}:{'+'.join(sorted(opts)) or 'plain'}",
                      f"compiling `{name}` with {opts} gave digest {e['digest']} in {where(e)}, but {first['digest']} in {where(first)}",
                      {"request": name, "options": opts, "source": SOURCES[name], "event": e, "first_seen": first})
    for r in sorted(rejected):
        name, opts = REQUESTS[r - 1]
        ctx.notes.append(f"request {name} {opts} does not compile on this tree")
    long_ = sum(1 for h in hists if len(h) > 1)
    return common.finish(
        ctx, level="model_checking", evaluations=len(events), distinct_nontrivial=long_,
        rule=f"{nreq} requests ({len(SOURCES)} sources sharing names: same struct name with different fields, overloads, an import, vectors, wasm-able functions; options plain / "
             f"optimize / wasm); CompileHistory (enumeration mode) generates all {want} sequences of length <= {maxlen}" + (" plus 120 seeded sequences of length 3" if quick else " (those of length <= 2 and a seeded sample of 2500 of length 3 are replayed)") +
             f"; each is replayed in a fresh process under hash seeds {seeds_long} (single requests: {seeds_single}); {len(events)} recorded events are consumed by "
             "CompileHistory in trace mode: one digest per request across all processes, positions and hash seeds. distinct_nontrivial = histories with at least two requests.",
        samples=[{"history": [REQUESTS[r - 1][0] + str(REQUESTS[r - 1][1]) for r in h]} for h in hists[20::max(1, len(hists) // 3)][:3]] + [{"event": events[5]}],
        exhaustive=True, traces_validated=len(outs),
        assumptions=["digest = sha256 of the InstructionPrinter listing of all functions, the sorted import names and (with the wasm option) of the bytes written by WriteTo",
                     "every request uses a fresh Compiler() (the statement speaks of fresh compiler objects)"],
        extra={"requests_not_compiling": sorted(REQUESTS[r - 1][0] for r in rejected), "processes": len(outs)})


def selftest(ctx, args):
    """Negative control for the CompileHistory trace binding: a real trace (one request compiled in two fresh processes under
    two hash seeds) is accepted; the same trace with one digest altered is rejected at that event."""
    cwd = str(ctx.scratch / "c18self")
    os.makedirs(cwd, exist_ok=True)
    worker = str(common.VERIF / "harness" / "c18_worker.py")
    outs = [replay(([1, 2], s, str(ctx.repo), cwd, worker)) for s in (0, 7)]
    events = []
    for pid, (h, s, out, err) in enumerate(outs):
        if out is None:
            raise common.Machinery(f"worker failed: {err}")
        for pos, (r, d) in enumerate(zip(h, out)):
            events.append({"proc": pid, "pos": pos + 1, "req": r, "digest": d, "seed": s, "earlier": h[:pos]})
    results = {}
    for name, evs in (("original", events), ("digest-altered", events[:-1] + [dict(events[-1], digest="0" * 16)])):
        path = ctx.tmp(f"c18-self-{name}.json")
        path.write_text(json.dumps(evs))
        cfg2 = f'CONSTANTS Mode = "trace" NReq = {len(REQUESTS)} MaxLen = 2\nINIT Init\nNEXT Next\nINVARIANT FunctionOfInput\nINVARIANT ReportTrace\nPROPERTY Stable\nCHECK_DEADLOCK FALSE\n'
        res2 = ctx.tlc("CompileHistory", cfg2, env={"BATCH": str(path)}, timeout=600, workers=1)
        final = [r for r in res2.records if r["bad"] or r["consumed"] == len(evs)]
        results[name] = bool(final and final[-1]["bad"])
    print("selftest C18 (CompileHistory trace binding):", json.dumps({k: ("rejected" if v else "accepted") for k, v in results.items()}))
    return 0 if results == {"original": False, "digest-altered": True} else 2
