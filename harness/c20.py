"""C20 - reported source positions designate the text they talk about.

Binding (A), exhaustive to a length: spec/MC_C20.tla (over spec/SourceMap.tla) enumerates
  off     every text over {character, line break} up to a length x every offset: line of
          the offset, start of every line (two formulations checked against each other);
  span    every text x every range [b, e]: the reported line:column range, which must
          designate exactly [b, e) again (round trip checked in TLC);
  layout  a fixed token list of a small program x every choice of separators (spaces, tabs,
          line breaks, blank lines, leading white space) at the varied gaps: the range of
          every identifier and the hull of every composite construct.
The driver feeds the same texts to nsl.ast.SourceMapping / Location and to the real parser
and passes (UpdateLocations, ValidateVariableNames with the diagnostic hook) and compares.
"""
import multiprocessing as mp
import re

import common
from common import quiet


def fmt(r):
    return f"{r['l1']}:{r['c1']}-{r['c2']}" if r["single"] else f"{r['l1']}:{r['c1']}-{r['l2']}:{r['c2']}"


def text_of(seq):
    return "".join("x" if ch == "c" else "\n" for ch in seq)


def build_layout(case):
    out = []
    n = 0
    for gap, tok in zip(case["gaps"], case["toks"]):
        for ch in gap:
            n += 1
            out.append("\n" if ch == "n" else "\ufeff" if ch == "b" else (" " if n % 3 else "\t"))
        out.append(tok)
    return "".join(out)


def work(cases):
    from nsl import ast, parser, Errors
    from nsl.passes import UpdateLocations, ValidateVariableNames
    out = []
    p = parser.NslParser()
    for case in cases:
        k = case["kind"]
        if k == "off":
            text = text_of(case["text"])
            sm = ast.SourceMapping(text)
            bad = None
            for o, row in enumerate(case["rows"]):
                try:
                    line = sm.GetLineFromOffset(o)
                    start = sm.GetLineStartOffset(line)
                except BaseException as e:  # noqa
                    line, start = type(e).__name__, None
                if line != row["line"]:
                    bad = ("line-of-offset", f"text {text!r}: offset {o} is reported on line {line} (0-based), it lies on line {row['line']}")
                    break
                if start != row["start"]:
                    bad = ("line-start-offset", f"text {text!r}: line {line} is reported to start at offset {start}, it starts at {row['start']}")
                    break
            if bad is None:
                for l, st in enumerate(case["starts"]):
                    try:
                        got = sm.GetLineStartOffset(l)
                    except BaseException as e:  # noqa
                        got = type(e).__name__
                    if got != st:
                        bad = ("line-start-offset", f"text {text!r}: line {l} is reported to start at offset {got}, it starts at {st}")
                        break
            out.append((bad[0], bad[1], {"text": text}) if bad else (None, "off-ok", None))
        elif k == "span":
            text = text_of(case["text"])
            sm = ast.SourceMapping(text)
            bad = None
            for row in case["rows"]:
                try:
                    got = str(ast.Location((row["b"], row["e"]), sm))
                except BaseException as e:  # noqa
                    got = type(e).__name__
                if got != fmt(row["r"]):
                    bad = ("range-string:" + ("single-line" if row["r"]["single"] else "multi-line"),
                           f"text {text!r}: the range of offsets [{row['b']}, {row['e']}) is reported as {got}, it is {fmt(row['r'])}")
                    break
            out.append((bad[0], bad[1], {"text": text}) if bad else (None, "span-ok", None))
        else:
            text = build_layout(case)
            c0 = {"source": text}
            try:
                with quiet():
                    mod = p.Parse(text)
            except SystemExit:
                out.append(("layout-rejected", "the parser refuses a layout of the token list", c0))
                continue
            try:
                f = mod.GetFunctions()[0]
                st = f.GetBody().GetStatements()
                nodes = {"gdecl": mod.GetDeclarations()[0].GetDeclarations()[0], "pa": f.GetArguments()[0], "pb": f.GetArguments()[1],
                         "xdecl": st[0].GetDeclarations()[0], "ause": st[0].GetDeclarations()[0].GetInitializerExpression().GetLeft(),
                         "guse": st[0].GetDeclarations()[0].GetInitializerExpression().GetRight(),
                         "wcondx": st[1].GetCondition().GetLeft(), "wconda": st[1].GetCondition().GetRight(),
                         "wasgx": st[1].GetBody().GetStatements()[0].GetExpression().GetLeft(),
                         "wrhsx": st[1].GetBody().GetStatements()[0].GetExpression().GetRight().GetLeft(),
                         "wrhsh": st[1].GetBody().GetStatements()[0].GetExpression().GetRight().GetRight(),
                         "incx": st[2].GetExpression().GetExpression(), "decx": st[3].GetExpression().GetExpression(),
                         "aredecl": st[4].GetDeclarations()[0],
                         "buse": st[4].GetDeclarations()[0].GetInitializerExpression(),
                         "hfdecl": st[5].GetDeclarations()[0], "hflit": st[5].GetDeclarations()[0].GetInitializerExpression(),
                         "pvdecl": st[6].GetDeclarations()[0], "hfuse": st[7].GetExpression().GetLeft(), "pvuse": st[7].GetExpression().GetRight().GetParent(),
                         "casgx": st[8].GetExpression().GetLeft(), "casga": st[8].GetExpression().GetRight().GetLeft(), "casgg": st[8].GetExpression().GetRight().GetRight(),
                         "xuse": st[9].GetExpression(),
                         "hdecl": mod.GetDeclarations()[1].GetDeclarations()[0]}
                bad = None
                for name, node in nodes.items():
                    got = str(node.GetLocation())
                    if got != fmt(case["located"][name]):
                        bad = (f"identifier-range:{name}", f"identifier `{name}` is reported at {got}, its characters are at {fmt(case['located'][name])}")
                        break
                if bad is None:
                    casgprod = st[8].GetExpression().GetRight()
                    memberexpr = st[7].GetExpression().GetRight()
                    # the compiler's own AST passes, in its order, up to and including the one that computes the composite ranges
                    import io
                    from nsl import Compiler
                    ran = []
                    with quiet():
                        for p_ in Compiler.Compiler().astPasses:
                            p_.Process(mod, output=io.StringIO())
                            ran.append(p_.Name)
                            if p_.Name == UpdateLocations.GetPass().Name:
                                break
                    if ran[-1] != UpdateLocations.GetPass().Name:
                        raise RuntimeError("the compiler's pass list has no location pass: " + str(ran))
                    comp = {"sum": st[0].GetDeclarations()[0].GetInitializerExpression(), "xdeclstmt": st[0], "whilecond": st[1].GetCondition(), "whilestmt": st[1],
                            "aredeclstmt": st[4], "hfdeclstmt": st[5], "memberexpr": memberexpr, "masgstmt": st[7], "casgprod": casgprod, "casgstmt": st[8], "retstmt": st[9], "function": f, "module": mod}
                    for name, node in comp.items():
                        got = str(node.GetLocation())
                        if got != fmt(case["composites"][name]):
                            bad = (f"composite-range:{name}", f"construct `{name}` is reported at {got}, its located parts span {fmt(case['composites'][name])}")
                            break
                if bad is None:
                    msgs = []
                    Errors._verif_messages = msgs
                    try:
                        with quiet():
                            ValidateVariableNames.GetPass().Process(mod)
                    finally:
                        Errors._verif_messages = None
                    m = [re.match(r"The variable '(\w+)' \((.*?)\) is already declared here (.*)$", t) for c, t in msgs if c == 2401]
                    m = [x for x in m if x]
                    if len(m) != 1:
                        bad = ("diagnostic-missing", f"expected exactly one redeclaration diagnostic, the hook recorded {msgs!r}")
                    else:
                        newloc, oldloc = m[0].group(2), m[0].group(3)
                        ok_new = {fmt(case["located"]["aredecl"]), fmt(case["composites"]["aredeclstmt"])}
                        if m[0].group(1) != "aa" or newloc not in ok_new or oldloc != fmt(case["located"]["pa"]):
                            bad = ("diagnostic-range", f"redeclaration diagnostic says {msgs[0][1]!r}; the new declaration is at {sorted(ok_new)}, the earlier one at {fmt(case['located']['pa'])}")
            except BaseException as e:  # noqa
                bad = ("layout-error:" + type(e).__name__, f"{type(e).__name__}: {e}")
            out.append((bad[0], bad[1], c0) if bad else (None, "layout-ok", None))
    return out


def run(ctx, args):
    quick = ctx.tier == "quick"
    mt, ms, vg = (10, 7, 3) if quick else (12, 8, 5)
    cfg = (f"CONSTANTS MaxText = {mt} MaxSpan = {ms} VariedGaps = {vg}\nINIT Init\nNEXT Next\nINVARIANT LinesAgree\nINVARIANT StartsIncrease\n"
           "INVARIANT RangesRoundTrip\nINVARIANT TokensRoundTrip\nINVARIANT Report\nCHECK_DEADLOCK FALSE\n")
    res = ctx.tlc("MC_C20", cfg, timeout=6000)
    cases = res.records
    want = (2 ** (mt + 1) - 1) + (2 ** (ms + 1) - 1) + 6 * 5 ** (vg - 1)
    if len(cases) != want:
        raise common.Machinery(f"expected {want} cases from TLC, got {len(cases)}")
    # the hook must be present: the diagnostic text is only observable through it
    from nsl import Errors
    if not hasattr(Errors, "_verif_messages"):
        raise common.Machinery("diagnostic hook missing from nsl/Errors.py")
    jobs = [cases[i:i + 100] for i in range(0, len(cases), 100)]
    with mp.Pool(16) as pool:
        results = pool.map(work, jobs)
    counts = {}
    for out in results:
        for key, what, case in out:
            if key is None:
                counts[what] = counts.get(what, 0) + 1
            else:
                ctx.violation(key, what, case)
    offsets = sum(len(c["rows"]) for c in cases if c["kind"] == "off")
    spans = sum(len(c["rows"]) for c in cases if c["kind"] == "span")
    # the scanner: token offsets and line numbers are where every reported position comes from
    import lexcheck
    lex_counts, lex_texts = lexcheck.run_lexer_conformance(ctx, 4 if ctx.tier == "quick" else 5)
    counts["lexer"] = lex_counts
    # the statement grammar (no listed property is about it: differences are notes only)
    import gramcheck
    counts["grammar"] = gramcheck.run_grammar_conformance(ctx, 4, 3000 if ctx.tier == "quick" else 40000)
    counts["grammar_module_level"] = gramcheck.run_grammar_conformance(ctx, 3 if ctx.tier == "quick" else 4, 2000 if ctx.tier == "quick" else 30000, mode="module")
    multi = sum(1 for c in cases if c["kind"] == "span" for r in c["rows"] if not r["r"]["single"])
    lay = [c for c in cases if c["kind"] == "layout"]
    samples = [{"text": text_of(cases[300]["text"]), "rows": cases[300]["rows"][:4]}, {"source": build_layout(lay[7]), "located": {k: fmt(v) for k, v in lay[7]["located"].items()}}]
    return common.finish(
        ctx, level="model_checking", evaluations=offsets + spans + len(lay) * 24, distinct_nontrivial=multi + len(lay),
        rule=f"all texts over {{character, line break}} up to length {mt} x all offsets ({offsets} offset queries, every line start), all texts up to length {ms} x all "
             f"ranges ({spans} ranges, {multi} of them multi-line; round trip proved in TLC), and {len(lay)} layouts of a 55-token program (separators: space/tab, "
             f"line break, blank line, mixed, at {vg} varied gaps incl. leading white space) with 17 identifier ranges (two of them operands of ++ / --), 8 composite hulls (a while loop, a global written after the function) and the redeclaration "
             f"diagnostic each. Scanner: {lex_texts} texts (all texts over a 12-character alphabet up to length {4 if ctx.tier == 'quick' else 5} and {len(lexcheck.PROBES)} probe texts) scanned by "
             "spec/Lexer.tla (invariants Covers, Maximal, Progress) and by nsl/lexer.py, compared token for token (type, text, offset, line) and in the illegal characters reported. "
             "Statement and module grammar (notes only): every token sequence up to length 4 over 17 tokens (bodies) / 3-4 over 16 tokens (modules) and seeded derivations with one-token mutations, decided by spec/Grammar.tla and by nsl/parser.py. "
             "distinct_nontrivial = multi-line ranges + layouts.",
        samples=samples, exhaustive=True, traces_validated=len(cases),
        assumptions=["the range reported for a redeclared variable may be its identifier or the identifier together with its initialiser (both designate the declaration)",
                     "the located parts of a construct are its identifiers and literals (keywords and punctuation carry no position)"],
        extra={"outcome_counts": counts})
