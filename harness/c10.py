"""C10 - overload resolution picks the unique best viable candidate.

Binding (A): TLC enumerates every ordered set of up to three distinct signatures (up to two
parameters) over the tier's type universe; spec/NslTypes.tla!Best prescribes, for every
argument type list, which candidate is chosen or why the call is rejected; invariants on the
specification: independence of declaration order, "chosen" is viable and strictly cheapest,
rejections are justified.  The driver replays every (set, argument list) cell at
types.Scope.RegisterFunction / FindFunction, and every set of up to two overloads end to
end: each overload returns a distinct constant, the program is compiled at both optimisation
levels and executed, and the VM must return the chosen overload's constant.
"""
import multiprocessing as mp
import random

import common
from common import quiet, time_limit, CaseTimeout
from c09 import mk_type

ARGSEQ = None

VALS = {"int": "3", "uint": "3", "float": "2.5", "float2": [1.5, 2.5], "float3": [1.5, 2.5, 3.5],
        "int2": [1, 2]}


def pyval(t):
    v = VALS[t]
    return {"3": 3, "2.5": 2.5}.get(v, v) if isinstance(v, str) else list(v)


def iface_rows(job):
    rows, argseq = job
    from nsl import types, ast
    out = []
    for row in rows:
        scope = types.Scope()
        fns = []
        for i, sig in enumerate(row["cands"]):
            f = types.Function("g", types.Integer(), [ast.Argument(mk_type(t), f"p{j}") for j, t in enumerate(sig)])
            f.Resolve(scope)
            scope.RegisterFunction("g", f)
            fns.append(f)
        for code, args in zip(row["row"], argseq):
            case = {"overloads": row["cands"], "call_argument_types": args, "prescribed": describe(code, row["cands"])}
            try:
                with quiet():
                    got = scope.FindFunction("g", [mk_type(t) for t in args])
                gi = [k for k, f in enumerate(fns) if f is got]
                g = gi[0] + 1 if gi else -9
            except BaseException as e:  # noqa
                g = "raise:" + type(e).__name__
            out.append(judge("iface", code, g, case))
        # unknown name
        try:
            with quiet():
                scope.FindFunction("h", [])
            out.append(("iface-unknown-name-accepted", "FindFunction returned something for a name that was never declared", {"overloads": row["cands"]}))
        except BaseException:  # noqa
            out.append((None, "ok-unknown", None))
    return out


def describe(code, cands):
    if code > 0:
        return f"chosen: g({', '.join(cands[code - 1])})"
    return {0: "rejected: no viable candidate", -1: "rejected: ambiguous", -2: "rejected: unknown name"}[code]


def judge(level, code, got, case):
    """code: prescribed (index>0 | 0 nomatch | -1 ambiguous); got: index | 'raise:...' | 'reject...'"""
    case = dict(case, observed=str(got))
    if code > 0:
        if got == code:
            return (None, "ok-chosen", None)
        if isinstance(got, int):
            return (f"{level}-wrong-overload", f"call with ({', '.join(case['call_argument_types'])}) on overloads {fmt(case['overloads'])} "
                    f"resolved to #{got}, the language chooses #{code}", case)
        return (f"{level}-rejects-resolvable", f"call with ({', '.join(case['call_argument_types'])}) on overloads {fmt(case['overloads'])} "
                f"is refused ({got}), the language chooses #{code}", case)
    if isinstance(got, int):
        why = {0: "no candidate is viable", -1: "the best score is shared", -2: "the name is unknown"}[code]
        return (f"{level}-accepts-{ {0: 'nonviable', -1: 'ambiguous', -2: 'unknown'}[code] }",
                f"call with ({', '.join(case['call_argument_types'])}) on overloads {fmt(case['overloads'])} resolved to #{got}, "
                f"the language rejects it ({why})", case)
    return (None, "ok-rejected", None)


def fmt(cands):
    return "[" + "; ".join("g(" + ", ".join(s) + ")" for s in cands) + "]"


def e2e_rows(job):
    rows, argseq = job
    out = []
    for row in rows:
        cands = row["cands"]
        for code, args in zip(row["row"], argseq):
            defs = [f"function g({', '.join(f'{t} p{j}' for j, t in enumerate(sig))}) -> int {{ return {101 + i}; }}\n" for i, sig in enumerate(cands)]
            variants = [("", defs)]
            if len(cands) == 2:
                # one overload of the set is exported, the other is not (in the set's order): resolution is the same
                variants.append(("exported-last", [defs[0], "export " + defs[1]]))
                variants.append(("exported-first", ["export " + defs[0], defs[1]]))
            caller = f"export function f({', '.join(f'{t} a{j}' for j, t in enumerate(args))}) -> int\n{{\n  return g({', '.join(f'a{j}' for j in range(len(args)))});\n}}\n"
            # the caller stands after, between and before the overloads: resolution does not depend on where a function is declared
            for vname, defs in variants:
             for pos in (range(len(cands), -1, -1) if vname == "" else (len(cands),)):
              src = "".join(defs[:pos]) + caller + "".join(defs[pos:])
              case = {"overloads": cands, "call_argument_types": args, "prescribed": describe(code, cands), "source": src, "caller_position": pos, "variant": vname}
              for opt in ((False, True) if pos == len(cands) and vname == "" else (False,)):
                  c2 = dict(case, optimize=opt)
                  try:
                      with time_limit(300):       # wall-clock guard only; a loaded machine must not turn into a verdict
                          st, r = common.compile_source(src, {"optimize": opt})
                          if st != "ok":
                              out.append(judge("e2e", code, "reject:" + r[:50], c2))
                              continue
                          vm = common.link_vm(r)
                          try:
                              with quiet():
                                  v = vm.Invoke("f", **{f"a{j}": pyval(t) for j, t in enumerate(args)})
                          except CaseTimeout:
                              raise
                          except BaseException as e:  # noqa
                              out.append(("e2e-vm-error:" + type(e).__name__, f"accepted call fails on the VM with {type(e).__name__}: {str(e)[:60]}", c2))
                              continue
                          if isinstance(v, int) and 101 <= v < 101 + len(cands):
                              out.append(judge("e2e", code, v - 100, c2))
                          else:
                              out.append(("e2e-bad-value", f"VM returned {v!r}, not one of the overloads' constants", c2))
                  except CaseTimeout:
                      out.append(("e2e-timeout", "case did not finish in 300 s", c2))
    return out


def compile_run(src, args, opt=False):
    """-> ('reject', why) | ('value', v) | ('vm-error', text)"""
    st, r = common.compile_source(src, {"optimize": opt})
    if st != "ok":
        return ("reject", r[:50])
    vm = common.link_vm(r)
    try:
        with quiet():
            return ("value", vm.Invoke("f", **args))
    except BaseException as e:  # noqa
        return ("vm-error", f"{type(e).__name__}: {str(e)[:60]}")


def twocall_rows(job):
    """Two calls of one overloaded name with different argument types in one module (in one function and in two): every call is
    resolved on its own; the module is accepted exactly if both calls resolve."""
    rows, argseq = job
    out = []
    single = [(i, a[0]) for i, a in enumerate(argseq) if len(a) == 1]
    for row in rows:
        cands = row["cands"]
        if any(len(c) != 1 for c in cands):
            continue
        defs = "".join(f"function g({sig[0]} p0) -> int {{ return {i + 1}; }}\n" for i, sig in enumerate(cands))
        for i1, t1 in single:
            for i2, t2 in single:
                if t1 == t2:
                    continue
                c1, c2 = row["row"][i1], row["row"][i2]
                for shape in ("one-function", "two-functions"):
                    if shape == "one-function":
                        src = defs + f"export function f({t1} a, {t2} b) -> int\n{{\n  return g(a) * 10 + g(b);\n}}\n"
                    else:
                        src = defs + f"function first({t1} a) -> int\n{{\n  return g(a);\n}}\nexport function f({t1} a, {t2} b) -> int\n{{\n  return first(a) * 10 + g(b);\n}}\n"
                    case = {"overloads": cands, "first_call": t1, "second_call": t2, "prescribed": [describe(c1, cands), describe(c2, cands)], "source": src, "shape": shape}
                    try:
                        with time_limit(300):
                            kind, v = compile_run(src, {"a": pyval(t1), "b": pyval(t2)})
                    except CaseTimeout:
                        out.append(("e2e-timeout", "case did not finish in 300 s", case))
                        continue
                    ok = c1 > 0 and c2 > 0
                    if kind == "reject":
                        out.append((None, "ok-rejected", None) if not ok else ("twocall-rejects-resolvable", f"both calls g({t1}) and g({t2}) resolve ({describe(c1, cands)}; {describe(c2, cands)}) but the module is refused ({v})", case))
                    elif not ok:
                        out.append(("twocall-accepts-unresolvable", f"g({t1}) -> {describe(c1, cands)}, g({t2}) -> {describe(c2, cands)}: the module is accepted", case))
                    elif kind == "vm-error":
                        out.append(("twocall-vm-error", f"accepted module fails on the VM: {v}", case))
                    elif v != c1 * 10 + c2:
                        out.append(("twocall-wrong-overload", f"g({t1}) then g({t2}) ran overloads {v // 10 if isinstance(v, int) else v}, {v % 10 if isinstance(v, int) else ''}; prescribed {c1}, {c2}", case))
                    else:
                        out.append((None, "ok-chosen", None))
    return out


def import_rows(job):
    """The first overload lives in a separately compiled, imported module, the second one in the importing module: the call
    sees both."""
    import os
    import pickle
    import tempfile
    rows, argseq = job
    out = []
    from nsl import Compiler
    for row in rows:
        cands = row["cands"]
        if len(cands) != 2:
            continue
        d = tempfile.mkdtemp(prefix="c10imp", dir=os.environ.get("VERIF_SCRATCH", "/var/tmp"))
        cwd = os.getcwd()
        try:
            os.chdir(d)
            lib = f"export function g({', '.join(f'{t} p{j}' for j, t in enumerate(cands[0]))}) -> int {{ return 1; }}\n"
            with quiet():
                r = Compiler.Compiler().Compile(lib, {})
            if r is None:
                out.append((None, "unjudged-lib-rejected", None))
                continue
            pickle.dump(r.IRModule, open("lib.nslir", "wb"))
            for code, args in zip(row["row"], argseq):
                src = 'import "lib";\n' + f"function g({', '.join(f'{t} p{j}' for j, t in enumerate(cands[1]))}) -> int {{ return 2; }}\n" + \
                      f"export function f({', '.join(f'{t} a{j}' for j, t in enumerate(args))}) -> int\n{{\n  return g({', '.join(f'a{j}' for j in range(len(args)))});\n}}\n"
                case = {"overloads": cands, "imported_overload": cands[0], "local_overload": cands[1], "call_argument_types": args, "prescribed": describe(code, cands), "source": src, "library": lib}
                try:
                    with time_limit(300):
                        st, r2 = common.compile_source(src, {})
                except CaseTimeout:
                    out.append(("e2e-timeout", "case did not finish in 300 s", case))
                    continue
                if st != "ok":
                    out.append(judge("import", code, "reject:" + r2[:50], case))
                    continue
                # which overload the call names: the callee of the CALL instruction in f (the linked program is not needed for that)
                from nsl import LinearIR
                calls = [i for i in r2.IRModule.Functions["f"].Instructions if isinstance(i, LinearIR.CallInstruction)]
                local = [n for n in r2.IRModule.Functions if n != "f"]
                if len(calls) != 1:
                    out.append(("import-shape", f"expected one call instruction in f, found {len(calls)}", case))
                    continue
                out.append(judge("import", code, 2 if calls[0].Function in local else 1, case))
            # BOTH overloads live in the imported module (not exported, in both orders); the importing module only calls
            for order in ((0, 1), (1, 0)):
                lib2 = "".join(f"function g({', '.join(f'{t} p{j}' for j, t in enumerate(cands[k]))}) -> int {{ return {k + 1}; }}\n" for k in order)
                with quiet():
                    r = Compiler.Compiler().Compile(lib2, {})
                if r is None:
                    out.append((None, "unjudged-lib-rejected", None))
                    continue
                names2 = list(r.IRModule.Functions)
                if len(names2) != 2:
                    out.append((None, "unjudged-lib-shape", None))
                    continue
                pickle.dump(r.IRModule, open(f"lib2{order[0]}.nslir", "wb"))
                for code, args in zip(row["row"], argseq):
                    src = f'import "lib2{order[0]}";\n' + f"export function f({', '.join(f'{t} a{j}' for j, t in enumerate(args))}) -> int\n{{\n  return g({', '.join(f'a{j}' for j in range(len(args)))});\n}}\n"
                    case = {"overloads": cands, "both_imported_in_order": list(order), "call_argument_types": args, "prescribed": describe(code, cands), "source": src, "library": lib2}
                    try:
                        with time_limit(300):
                            st, r2 = common.compile_source(src, {})
                    except CaseTimeout:
                        out.append(("e2e-timeout", "case did not finish in 300 s", case))
                        continue
                    if st != "ok":
                        out.append(judge("import", code, "reject:" + r2[:50], case))
                        continue
                    from nsl import LinearIR
                    calls = [i for i in r2.IRModule.Functions["f"].Instructions if isinstance(i, LinearIR.CallInstruction)]
                    if len(calls) != 1 or calls[0].Function not in names2:
                        out.append(("import-shape", f"expected one call of an imported g in f, found {[c.Function for c in calls]}", case))
                        continue
                    out.append(judge("import", code, order[names2.index(calls[0].Function)] + 1, case))
        finally:
            os.chdir(cwd)
            import shutil
            shutil.rmtree(d, ignore_errors=True)
    return out


def dup_rows(job):
    """One parameter list declared twice, with result types int and float: every call is rejected (the best score is shared, or nothing is viable)."""
    rows, argseq = job
    out = []
    for row in rows:
        sig = row["cands"][0]
        ps = ', '.join(f'{t} p{j}' for j, t in enumerate(sig))
        defs = [f"function g({ps}) -> int {{ return 101; }}\n", f"function g({ps}) -> float {{ return 102.5; }}\n"]
        for code, args in zip(row["row"], argseq):
            for order in ((0, 1), (1, 0)):
                for rt in ("int", "float"):
                    src = defs[order[0]] + defs[order[1]] + f"export function f({', '.join(f'{t} a{j}' for j, t in enumerate(args))}) -> {rt}\n{{\n  return g({', '.join(f'a{j}' for j in range(len(args)))});\n}}\n"
                    case = {"overloads": [sig + ["-> int"], sig + ["-> float"]], "call_argument_types": args, "prescribed": describe(code, row["cands"]), "source": src}
                    try:
                        with time_limit(300):
                            st, r = common.compile_source(src, {})
                            if st != "ok":
                                out.append(judge("dup", code, "reject:" + r[:50], case))
                                continue
                            vm = common.link_vm(r)
                            try:
                                with quiet():
                                    v = vm.Invoke("f", **{f"a{j}": pyval(t) for j, t in enumerate(args)})
                            except CaseTimeout:
                                raise
                            except BaseException as e:  # noqa
                                v = "vm:" + type(e).__name__
                            out.append(judge("dup", code, {101: 1 + order.index(0), 102.5: 1 + order.index(1)}.get(v, 9), dict(case, vm_result=repr(v))))
                    except CaseTimeout:
                        out.append(("e2e-timeout", "case did not finish in 300 s", case))
    return out


def chunks(xs, n):
    return [xs[i:i + n] for i in range(0, len(xs), n)]


def run(ctx, args):
    quick = ctx.tier == "quick"
    cfg = (f'CONSTANTS Tier = "{ctx.tier}" MaxCands = 3\nINIT Init\nNEXT Next\nINVARIANT OrderIndependent\n'
           "INVARIANT ChosenIsBest\nINVARIANT RejectedRight\nINVARIANT Report\nCHECK_DEADLOCK FALSE\n")
    res = ctx.tlc("MC_C10", cfg, timeout=3000)
    argseq = [r for r in res.records if "argseq" in r]
    rows = [r for r in res.records if "cands" in r]
    nsig = 13 if quick else 43
    nrows = nsig + nsig * (nsig - 1) + nsig * (nsig - 1) * (nsig - 2)
    if len(argseq) != 1 or len(rows) != nrows or len(argseq[0]["argseq"]) != nsig:
        raise common.Machinery(f"expected 1 argument order and {nrows} rows from TLC, got {len(argseq)} / {len(rows)}")
    argseq = argseq[0]["argseq"]
    rnd = random.Random(ctx.seed)
    small = [r for r in rows if len(r["cands"]) <= 2]
    if not quick:
        # every set of up to two overloads would be 1849 x 43 x 2 compilations; take all singletons and a seeded sample of pairs/triples
        small = [r for r in rows if len(r["cands"]) == 1] + rnd.sample([r for r in rows if len(r["cands"]) == 2], 500) \
            + rnd.sample([r for r in rows if len(r["cands"]) == 3], 200)
    jobs_i = [(c, argseq) for c in chunks(rows, 64 if quick else 512)]
    jobs_e = [(c, argseq) for c in chunks(small, 8)]
    # a universe with several types of one shape class (int2, float2, float3, int), for modules with two calls of one name
    resv = ctx.tlc("MC_C10", cfg.replace(f'Tier = "{ctx.tier}"', 'Tier = "vectors"').replace("MaxCands = 3", "MaxCands = 2"), timeout=3000)
    argseq_v = [r for r in resv.records if "argseq" in r][0]["argseq"]
    rows_v = [r for r in resv.records if "cands" in r]
    if len(rows_v) != 21 + 21 * 20:
        raise common.Machinery(f"expected 441 rows for the vector universe, got {len(rows_v)}")
    resd = ctx.tlc("MC_C10", cfg.replace(f'Tier = "{ctx.tier}"', 'Tier = "dups"').replace("MaxCands = 3", "MaxCands = 2"), timeout=3000)
    argseq_d = [r for r in resd.records if "argseq" in r][0]["argseq"]
    rows_d = [r for r in resd.records if "cands" in r]
    if len(rows_d) != 13 or any(c > 0 for r in rows_d for c in r["row"]):
        raise common.Machinery(f"expected 13 rows without a chosen candidate for the duplicate universe, got {len(rows_d)}")
    two = [r for r in rows if len(r["cands"]) == 2 and all(len(c) <= 2 for c in r["cands"])]
    if not quick:
        two = rnd.sample(two, 300)
    with mp.Pool(16) as pool:
        ri = pool.map(iface_rows, jobs_i)
        ri += pool.map(iface_rows, [(c, argseq_v) for c in chunks(rows_v, 64)])          # vector conversions against scalar conversions
        re_ = pool.map(e2e_rows, jobs_e)
        re_ += pool.map(twocall_rows, [(c, argseq_v) for c in chunks(rows_v, 16)])
        re_ += pool.map(import_rows, [(c, argseq) for c in chunks(two, 6)])
        re_ += pool.map(dup_rows, [(c, argseq_d) for c in chunks(rows_d, 1)])
    counts = {}
    evals = 0
    for tag, res_ in (("iface", ri), ("e2e", re_)):
        for out in res_:
            for key, what, case in out:
                evals += 1
                if key is None:
                    counts[f"{tag}:{what}"] = counts.get(f"{tag}:{what}", 0) + 1
                else:
                    ctx.violation(key, what, case)
    for k in ("iface:ok-chosen", "iface:ok-rejected", "e2e:ok-chosen", "e2e:ok-rejected"):
        if counts.get(k, 0) == 0 and not ctx.violations:
            raise common.Machinery(f"vacuous run: no {k} outcome")
    nontriv = sum(1 for r in rows for c in r["row"] if c != 0 and len(r["cands"]) > 1)
    samples = [{"overloads": r["cands"], "call": a, "prescribed": describe(c, r["cands"])}
               for r in rows[100:2000:400] for c, a in list(zip(r["row"], argseq))[1:13:4]]
    return common.finish(
        ctx, level="model_checking", evaluations=evals, distinct_nontrivial=nontriv,
        rule=f"TLC enumerates all {nrows} ordered sets of <= 3 distinct signatures with <= 2 parameters over the {'3' if quick else '6'}-type universe "
             f"x all {nsig} argument type lists and prints NslTypes!Best; every cell is replayed at Scope.RegisterFunction/FindFunction; "
             f"{len(small)} sets are also compiled (both optimisation levels; the caller after, between and before the overloads) and run on the VM with one distinct constant per overload; "
             f"modules with two calls of one name whose argument types differ within a shape class (universe int, int2, float2, float3; one function and two); {len(two)} pairs of overloads "
             "split over an imported module and the importing one. "
             "distinct_nontrivial = cells with at least two overloads in which some candidate is viable (a ranking or an ambiguity had to be decided).",
        samples=samples, exhaustive=True, traces_validated=evals,
        assumptions=["convertible = same shape class and size (any component type); cost = number of parameters whose type differs from the argument's",
                     "rejection = FindFunction raises / Compile returns None or raises"],
        extra={"outcome_counts": counts, "sets_end_to_end": len(small)})
