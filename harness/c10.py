"""C10 - overload resolution picks the unique best viable candidate.

Binding (A): TLC enumerates every ordered set of up to three distinct signatures (up to two
parameters) over the tier's type universe; spec/NslTypes.tla!Best prescribes, for every
argument type list, which candidate is chosen or why the call is rejected; invariants on the
specification: independence of declaration order, "chosen" is viable and strictly cheapest,
rejections are justified.  The driver replays every (set, argument list) cell at
types.Scope.RegisterFunction / FindFunction, and every set of up to two overloads end to
end: each overload returns a distinct constant, the program is compiled at both optimisation
levels and executed, and the VM must return the chosen overload's constant.
"""
import multiprocessing as mp
import random

import common
from common import quiet, time_limit, CaseTimeout
from c09 import mk_type

ARGSEQ = None

VALS = {"int": "3", "uint": "3", "float": "2.5", "float2": [1.5, 2.5], "float3": [1.5, 2.5, 3.5],
        "int2": [1, 2]}


def pyval(t):
    v = VALS[t]
    return {"3": 3, "2.5": 2.5}.get(v, v) if isinstance(v, str) else list(v)


def iface_rows(job):
    rows, argseq = job
    from nsl import types, ast
    out = []
    for row in rows:
        scope = types.Scope()
        fns = []
        for i, sig in enumerate(row["cands"]):
            f = types.Function("g", types.Integer(), [ast.Argument(mk_type(t), f"p{j}") for j, t in enumerate(sig)])
            f.Resolve(scope)
            scope.RegisterFunction("g", f)
            fns.append(f)
        for code, args in zip(row["row"], argseq):
            case = {"overloads": row["cands"], "call_argument_types": args, "prescribed": describe(code, row["cands"])}
            try:
                with quiet():
                    got = scope.FindFunction("g", [mk_type(t) for t in args])
                gi = [k for k, f in enumerate(fns) if f is got]
                g = gi[0] + 1 if gi else -9
            except BaseException as e:  # noqa
                g = "raise:" + type(e).__name__
            out.append(judge("iface", code, g, case))
        # unknown name
        try:
            with quiet():
                scope.FindFunction("h", [])
            out.append(("iface-unknown-name-accepted", "FindFunction returned something for a name that was never declared", {"overloads": row["cands"]}))
        except BaseException:  # noqa
            out.append((None, "ok-unknown", None))
    return out


def describe(code, cands):
    if code > 0:
        return f"chosen: g({', '.join(cands[code - 1])})"
    return {0: "rejected: no viable candidate", -1: "rejected: ambiguous", -2: "rejected: unknown name"}[code]


def judge(level, code, got, case):
    """code: prescribed (index>0 | 0 nomatch | -1 ambiguous); got: index | 'raise:...' | 'reject...'"""
    case = dict(case, observed=str(got))
    if code > 0:
        if got == code:
            return (None, "ok-chosen", None)
        if isinstance(got, int):
            return (f"{level}-wrong-overload", f"call with ({', '.join(case['call_argument_types'])}) on overloads {fmt(case['overloads'])} "
                    f"resolved to #{got}, the language chooses #{code}", case)
        return (f"{level}-rejects-resolvable", f"call with ({', '.join(case['call_argument_types'])}) on overloads {fmt(case['overloads'])} "
                f"is refused ({got}), the language chooses #{code}", case)
    if isinstance(got, int):
        why = {0: "no candidate is viable", -1: "the best score is shared", -2: "the name is unknown"}[code]
        return (f"{level}-accepts-{ {0: 'nonviable', -1: 'ambiguous', -2: 'unknown'}[code] }",
                f"call with ({', '.join(case['call_argument_types'])}) on overloads {fmt(case['overloads'])} resolved to #{got}, "
                f"the language rejects it ({why})", case)
    return (None, "ok-rejected", None)


def fmt(cands):
    return "[" + "; ".join("g(" + ", ".join(s) + ")" for s in cands) + "]"


def e2e_rows(job):
    rows, argseq = job
    out = []
    for row in rows:
        cands = row["cands"]
        for code, args in zip(row["row"], argseq):
            defs = [f"function g({', '.join(f'{t} p{j}' for j, t in enumerate(sig))}) -> int {{ return {101 + i}; }}\n" for i, sig in enumerate(cands)]
            caller = f"export function f({', '.join(f'{t} a{j}' for j, t in enumerate(args))}) -> int\n{{\n  return g({', '.join(f'a{j}' for j in range(len(args)))});\n}}\n"
            # the caller stands after, between and before the overloads: resolution does not depend on where a function is declared
            for pos in range(len(cands), -1, -1):
              src = "".join(defs[:pos]) + caller + "".join(defs[pos:])
              case = {"overloads": cands, "call_argument_types": args, "prescribed": describe(code, cands), "source": src, "caller_position": pos}
              for opt in ((False, True) if pos == len(cands) else (False,)):
                  c2 = dict(case, optimize=opt)
                  try:
                      with time_limit(300):       # wall-clock guard only; a loaded machine must not turn into a verdict
                          st, r = common.compile_source(src, {"optimize": opt})
                          if st != "ok":
                              out.append(judge("e2e", code, "reject:" + r[:50], c2))
                              continue
                          vm = common.link_vm(r)
                          try:
                              with quiet():
                                  v = vm.Invoke("f", **{f"a{j}": pyval(t) for j, t in enumerate(args)})
                          except CaseTimeout:
                              raise
                          except BaseException as e:  # noqa
                              out.append(("e2e-vm-error:" + type(e).__name__, f"accepted call fails on the VM with {type(e).__name__}: {str(e)[:60]}", c2))
                              continue
                          if isinstance(v, int) and 101 <= v < 101 + len(cands):
                              out.append(judge("e2e", code, v - 100, c2))
                          else:
                              out.append(("e2e-bad-value", f"VM returned {v!r}, not one of the overloads' constants", c2))
                  except CaseTimeout:
                      out.append(("e2e-timeout", "case did not finish in 300 s", c2))
    return out


def chunks(xs, n):
    return [xs[i:i + n] for i in range(0, len(xs), n)]


def run(ctx, args):
    quick = ctx.tier == "quick"
    cfg = (f'CONSTANTS Tier = "{ctx.tier}" MaxCands = 3\nINIT Init\nNEXT Next\nINVARIANT OrderIndependent\n'
           "INVARIANT ChosenIsBest\nINVARIANT RejectedRight\nINVARIANT Report\nCHECK_DEADLOCK FALSE\n")
    res = ctx.tlc("MC_C10", cfg, timeout=3000)
    argseq = [r for r in res.records if "argseq" in r]
    rows = [r for r in res.records if "cands" in r]
    nsig = 13 if quick else 43
    nrows = nsig + nsig * (nsig - 1) + nsig * (nsig - 1) * (nsig - 2)
    if len(argseq) != 1 or len(rows) != nrows or len(argseq[0]["argseq"]) != nsig:
        raise common.Machinery(f"expected 1 argument order and {nrows} rows from TLC, got {len(argseq)} / {len(rows)}")
    argseq = argseq[0]["argseq"]
    rnd = random.Random(ctx.seed)
    small = [r for r in rows if len(r["cands"]) <= 2]
    if not quick:
        # every set of up to two overloads would be 1849 x 43 x 2 compilations; take all singletons and a seeded sample of pairs/triples
        small = [r for r in rows if len(r["cands"]) == 1] + rnd.sample([r for r in rows if len(r["cands"]) == 2], 500) \
            + rnd.sample([r for r in rows if len(r["cands"]) == 3], 200)
    jobs_i = [(c, argseq) for c in chunks(rows, 64 if quick else 512)]
    jobs_e = [(c, argseq) for c in chunks(small, 8)]
    with mp.Pool(16) as pool:
        ri = pool.map(iface_rows, jobs_i)
        re_ = pool.map(e2e_rows, jobs_e)
    counts = {}
    evals = 0
    for tag, res_ in (("iface", ri), ("e2e", re_)):
        for out in res_:
            for key, what, case in out:
                evals += 1
                if key is None:
                    counts[f"{tag}:{what}"] = counts.get(f"{tag}:{what}", 0) + 1
                else:
                    ctx.violation(key, what, case)
    for k in ("iface:ok-chosen", "iface:ok-rejected", "e2e:ok-chosen", "e2e:ok-rejected"):
        if counts.get(k, 0) == 0 and not ctx.violations:
            raise common.Machinery(f"vacuous run: no {k} outcome")
    nontriv = sum(1 for r in rows for c in r["row"] if c != 0 and len(r["cands"]) > 1)
    samples = [{"overloads": r["cands"], "call": a, "prescribed": describe(c, r["cands"])}
               for r in rows[100:2000:400] for c, a in list(zip(r["row"], argseq))[1:13:4]]
    return common.finish(
        ctx, level="model_checking", evaluations=evals, distinct_nontrivial=nontriv,
        rule=f"TLC enumerates all {nrows} ordered sets of <= 3 distinct signatures with <= 2 parameters over the {'3' if quick else '6'}-type universe "
             f"x all {nsig} argument type lists and prints NslTypes!Best; every cell is replayed at Scope.RegisterFunction/FindFunction; "
             f"{len(small)} sets are also compiled (both optimisation levels) and run on the VM with one distinct constant per overload. "
             "distinct_nontrivial = cells with at least two overloads in which some candidate is viable (a ranking or an ambiguity had to be decided).",
        samples=samples, exhaustive=True, traces_validated=evals,
        assumptions=["convertible = same shape class and size (any component type); cost = number of parameters whose type differs from the argument's",
                     "rejection = FindFunction raises / Compile returns None or raises"],
        extra={"outcome_counts": counts, "sets_end_to_end": len(small)})
