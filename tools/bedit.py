#!/usr/bin/env python3
"""Byte-preserving edit of a repo file: bedit.py FILE OLDFILE NEWFILE
OLD/NEW are given with LF endings; they are converted to the file's line-ending style.
Fails unless OLD occurs exactly once."""
import sys
path, oldp, newp = sys.argv[1:4]
data = open(path, 'rb').read()
old = open(oldp, 'rb').read(); new = open(newp, 'rb').read()
crlf = data.count(b'\r\n') > data.count(b'\n') // 2
if crlf:
    old = old.replace(b'\r\n', b'\n').replace(b'\n', b'\r\n')
    new = new.replace(b'\r\n', b'\n').replace(b'\n', b'\r\n')
n = data.count(old)
if n != 1:
    sys.exit(f"expected exactly one occurrence, found {n}")
open(path, 'wb').write(data.replace(old, new))
print("edited", path, "crlf" if crlf else "lf")
