#!/usr/bin/env python3
"""Byte-preserving edit of a repo file (keeps CRLF / BOM).
As a module: edit(path, old, new) with old/new given with LF endings; old must occur exactly once.
As a script: bedit.py FILE OLDFILE NEWFILE"""
import sys


def edit(path, old, new, count=1):
    data = open(path, 'rb').read()
    old = old.encode() if isinstance(old, str) else old
    new = new.encode() if isinstance(new, str) else new
    crlf = data.count(b'\r\n') > data.count(b'\n') // 2
    if crlf:
        old = old.replace(b'\r\n', b'\n').replace(b'\n', b'\r\n')
        new = new.replace(b'\r\n', b'\n').replace(b'\n', b'\r\n')
    n = data.count(old)
    if n != count:
        raise SystemExit(f"{path}: expected exactly {count} occurrence(s), found {n}")
    open(path, 'wb').write(data.replace(old, new))
    print("edited", path, "crlf" if crlf else "lf")


if __name__ == "__main__":
    path, oldp, newp = sys.argv[1:4]
    edit(path, open(oldp, 'rb').read(), open(newp, 'rb').read())
