#!/usr/bin/env python3
"""Confirm a seeded change delivered by a sub-agent and file it under /verif/seeded/.

usage: seed_confirm.py <prop> <n> "<what it needs to manifest>" [<source dir> [<number under /verif/seeded>]]
Reads <source dir>/patch<n>.diff and demo<n>.py (default source dir /tmp/seeds/<prop>).  In a scratch worktree of /repo's HEAD:
  1. demo passes on the unchanged tree,
  2. patch applies, the 82 tests still pass,
  3. demo fails with the patch.
The worktree is removed afterwards.  On success the files are copied to /verif/seeded/<prop>-<n>/ with meta.json.
"""
import json
import os
import shutil
import subprocess
import sys

prop, n, needs = sys.argv[1], sys.argv[2], sys.argv[3]
src = sys.argv[4] if len(sys.argv) > 4 else f"/tmp/seeds/{prop}"
dn = sys.argv[5] if len(sys.argv) > 5 else n
wt = f"/tmp/wtc/{prop}-{n}"
py = "/venv/bin/python"


def sh(cmd, **kw):
    return subprocess.run(cmd, shell=True, capture_output=True, text=True, **kw)


os.makedirs("/tmp/wtc", exist_ok=True)
sh(f"git -C /repo worktree remove --force {wt}")
r = sh(f"git -C /repo worktree add --detach {wt} HEAD")
assert r.returncode == 0, r.stderr
ran = []
ok = False
try:
    env = dict(os.environ)
    env.pop("NSL_VERIF", None)
    d0 = sh(f"timeout 300 {py} {src}/demo{n}.py {wt}", env=env)
    ran.append(f"demo{n}.py on unchanged tree: exit {d0.returncode}")
    a = sh(f"git -C {wt} apply {src}/patch{n}.diff")
    ran.append(f"git apply patch{n}.diff: exit {a.returncode} {a.stderr.strip()[:200]}")
    t = sh(f"cd {wt} && timeout 600 {py} -m pytest -q -p no:cacheprovider --timeout=900 2>&1 | tail -1", env=env)
    ran.append(f"pytest with the change: {t.stdout.strip()}")
    d1 = sh(f"timeout 300 {py} {src}/demo{n}.py {wt}", env=env)
    ran.append(f"demo{n}.py with the change: exit {d1.returncode}")
    ok = d0.returncode == 0 and a.returncode == 0 and "82 passed" in t.stdout and d1.returncode == 1
    print("\n".join(ran))
    if not ok:
        print("NOT CONFIRMED")
        print(d0.stdout[-500:], d1.stdout[-800:], d1.stderr[-500:])
finally:
    sh(f"git -C /repo worktree remove --force {wt}")
if ok:
    dst = f"/verif/seeded/{prop}-{dn}"
    os.makedirs(dst, exist_ok=True)
    shutil.copy(f"{src}/patch{n}.diff", f"{dst}/patch.diff")
    shutil.copy(f"{src}/demo{n}.py", f"{dst}/demo.py")
    if os.path.exists(f"{src}/NOTES.md"):
        shutil.copy(f"{src}/NOTES.md", f"{dst}/NOTES-from-author.md")
    head = sh("git -C /repo rev-parse --short HEAD").stdout.strip()
    json.dump({"property": prop, "breaks": prop, "needs_to_manifest": needs,
               "confirmed_against_repo_head": head, "what_i_ran": ran,
               "detected_by": "(filled in after running the checks)"},
              open(f"{dst}/meta.json", "w"), indent=1)
    print("CONFIRMED ->", dst)
