#!/usr/bin/env python3
"""Fill seeded/MATRIX.json and meta.json["detected_by"] for changes tried with tools/seed_try.sh (one summary line per try).
usage: seed_fill.py <summary file> [round]
A summary line reads `<seed id> via <check>: exit=<n> violations=<k> VIOLATION property=<p> replay=<path> ...`."""
import json
import os
import re
import subprocess
import sys

root = "/verif/seeded"
mpath = os.path.join(root, "MATRIX.json")
matrix = json.load(open(mpath))
head = subprocess.run("git -C /repo rev-parse --short HEAD", shell=True, capture_output=True, text=True).stdout.strip()
rnd = int(sys.argv[2]) if len(sys.argv) > 2 else None
for line in open(sys.argv[1]):
    m = re.match(r"(C\d+-\d+) via (C\d+): exit=(\d+) violations=(\d+)(.*)", line)
    if not m:
        continue
    sid, chk, ex, nv, rest = m.group(1), m.group(2), int(m.group(3)), int(m.group(4)), m.group(5)
    keys = re.findall(r"replay=/verif/replay[-a-z]*/(\S+)\.json", rest)
    if ex not in (0, 1):
        continue                      # timeout / machinery failure: not a result
    res = {"applies": True, "exit": ex, "detected": ex == 1 and nv > 0, "violation_keys": keys[:4], "summary": rest.strip()[-160:], "repo_head": head, "checked_with": chk}
    if sid in matrix and matrix[sid].get("detected") and (not res["detected"] or (matrix[sid].get("checked_with") == sid.split("-")[0] != chk)):
        continue                      # an earlier line of the same file (before strengthening) must not overwrite a later detection
    matrix[sid] = res
    mp = os.path.join(root, sid, "meta.json")
    meta = json.load(open(mp))
    meta["detected_by"] = (f"./check {chk} --tier quick -> exit 1, " + ", ".join(keys[:2])) if res["detected"] else f"not detected by ./check {chk} --tier quick"
    meta["checked_against_repo_head"] = head
    if rnd:
        meta["round"] = rnd
    json.dump(meta, open(mp, "w"), indent=1)
json.dump(matrix, open(mpath, "w"), indent=1, sort_keys=True)
