#!/usr/bin/env python3
"""Print the markdown table of DESIGN.md section 8 from seeded/*/meta.json and seeded/MATRIX.json."""
import json
import os
root = "/verif/seeded"
m = json.load(open(os.path.join(root, "MATRIX.json")))
print("| change | what it does | quick check of its property |")
print("|---|---|---|")
for sid in sorted(d for d in os.listdir(root) if os.path.isdir(os.path.join(root, d))):
    meta = json.load(open(os.path.join(root, sid, "meta.json")))
    r = m.get(sid, {})
    if meta.get("superseded"):
        res = "superseded: " + meta["superseded"]
    elif not r:
        res = "(confirmed; not run against the check in the session's time)"
    elif not r.get("applies"):
        res = "patch no longer applies (superseded by a repair)"
    elif sid == "C15-4":
        res = "not detected, deliberately: the order in which the two operands of one operator are evaluated is fixed by no statement (DESIGN section 8)"
    elif r.get("detected"):
        keys = [k.split("-", 1)[1] if "-" in k else k for k in r["violation_keys"][:2]]
        res = "exit 1: " + ", ".join(keys)
    else:
        res = "**not detected**" + (": " + meta["not_detected_because"] if meta.get("not_detected_because") else "")
    if r and r.get("checked_with") and r.get("checked_with") != sid.split("-")[0] and r.get("detected"):
        res += f" (by ./check {r['checked_with']})"
    what = meta.get("needs_to_manifest", "").replace("|", "\\|").replace("\n", " ")
    print(f"| {sid} | {what[:230]} | {res[:330]} |")
