#!/bin/sh
# Discharge the inductive invariant of spec/LinkerInd.tla with Apalache (N = 6 modules, every DAG / order / state symbolically):
#   1. ApaInit => IndInv   2. IndInv /\ Next => IndInv'   3. IndInv => LoadedOnce /\ OrderIndependent /\ ClashRejected
# and let TLC check IndInv and Props as invariants of the reachable states of the same module for N = 3.
# usage: apalache_linker.sh [scratch dir]     exit 0 = all four steps passed, 1 = a step failed, 2 = tool problem
out=${1:-/tmp/apalache_linker.$$}; mkdir -p "$out"; here=$(cd "$(dirname "$0")/.." && pwd)
cp "$here"/spec/LinkerInd.tla "$here"/spec/apalache/MC_LinkerInd.tla "$here"/spec/MC_LinkerIndTLC.tla "$out"/ || exit 2
cd "$out" || exit 2
# LINKER_N: number of modules for the symbolic steps (default 6, as written in the module; the six unrolled closure rounds are exact for any N <= 6)
n=${LINKER_N:-6}; sed -i "s/^N == 6\$/N == $n/" LinkerInd.tla; grep -q "^N == $n\$" LinkerInd.tla || exit 2
t=${APALACHE_TIMEOUT:-3000}
(timeout $t apalache-mc check --init=ApaInit --inv=IndInv --length=0 --out-dir="$out/a" MC_LinkerInd.tla > a.log 2>&1; echo $? > a.rc) &
(timeout $t apalache-mc check --init=IndInit --inv=IndInv --length=1 --out-dir="$out/b" MC_LinkerInd.tla > b.log 2>&1; echo $? > b.rc) &
(timeout $t apalache-mc check --init=IndInit --inv=Props --length=0 --out-dir="$out/c" MC_LinkerInd.tla > c.log 2>&1; echo $? > c.rc) &
mkdir -p tlc && sed "s/^N == $n\$/N == 3/;"' s/XX//; s/Grow(Grow(Grow(Grow(Grow(Grow(Range(order)))))))/Grow(Grow(Grow(Range(order))))/' LinkerInd.tla > tlc/LinkerInd.tla && cp MC_LinkerIndTLC.tla tlc/
printf 'SPECIFICATION TLCSpec\nINVARIANT IndInv\nINVARIANT Props\nCHECK_DEADLOCK FALSE\n' > tlc/t.cfg
(cd tlc && timeout 900 tlc -workers 4 -metadir "$out/tlc/m" -noGenerateSpecTE -config t.cfg MC_LinkerIndTLC.tla > ../t.log 2>&1; echo $? > ../t.rc)
wait
rc=0
for s in a b c; do
  r=$(cat $s.rc)
  if grep -q "EXITCODE: OK" $s.log; then echo "apalache step $s: OK ($(grep -o 'Total time: [0-9.]* sec' $s.log))"
  elif [ "$r" = 124 ]; then echo "apalache step $s: TIMEOUT"; [ $rc = 0 ] && rc=2
  elif grep -q "EXITCODE: ERROR (12)" $s.log; then echo "apalache step $s: COUNTEREXAMPLE"; rc=1
  else echo "apalache step $s: tool error (rc $r): $(grep -m1 'E@' $s.log | cut -c1-200)"; [ $rc = 0 ] && rc=2; fi
done
if [ "$(cat t.rc)" = 0 ] && grep -q "No error has been found" t.log; then echo "tlc N=3: OK ($(grep -o '[0-9]* distinct states found' t.log | tail -1))"; else echo "tlc N=3: FAILED"; rc=1; fi
[ -z "$KEEP" ] && cd / && rm -rf "$out"
exit $rc
