#!/bin/sh
# negative controls of the trace bindings: every recorded trace is accepted, every manipulated one is rejected
cd /verif || exit 2
rc=0
for p in C01 C05 C18 C19; do timeout 900 ./check $p --selftest | tail -1 || rc=2; done
exit $rc
