#!/usr/bin/env python3
"""Replace the evidence table in DESIGN.md (section 6) by the one generated from evidence/*.json."""
import re
import subprocess
p = "/verif/DESIGN.md"
s = open(p).read()
tab = subprocess.run(["python3", "/verif/tools/evidence_table.py"], capture_output=True, text=True).stdout
a = s.index("| property | tier | seed |")
b = s.index("\n\n## 7. Genuine defects")
s = s[:a] + tab.rstrip("\n") + s[b:]
open(p, "w").write(s)
print("table refreshed")
