#!/bin/sh
# usage: run_all.sh [quick|thorough]   - every property's check, one after the other; exit 1 if any check reports a violation, 2 on machinery failure
tier=${1:-quick}
cd "$(dirname "$0")/.." || exit 2
worst=0
for p in C01 C02 C03 C04 C05 C06 C07 C08 C09 C10 C11 C12 C13 C14 C15 C16 C17 C18 C19 C20; do
  ./check $p --tier "$tier"; rc=$?
  [ $rc -gt $worst ] && worst=$rc
done
exit $worst
