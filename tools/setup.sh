#!/bin/sh
# Offline setup: parse every specification module with SANY and make sure the python side imports.
# Nothing is downloaded; nothing outside /verif is written except a scratch dir that is removed.
set -e
here="$(cd "$(dirname "$0")/.." && pwd)"
cd "$here/spec"
fail=0
for f in *.tla; do
  if ! java -cp /opt/veriftools/tla/tla2tools.jar:/opt/veriftools/tla/CommunityModules-deps.jar tla2sany.SANY "$f" > /dev/null 2>&1; then
    echo "SANY failed on $f"; fail=1
  fi
done
/venv/bin/python -c "import ply, json"
python3-vt "$here/tools/mkmanifest.py" > /dev/null
[ $fail -eq 0 ] && echo "setup ok"
exit $fail
