#!/usr/bin/env python3
"""Regenerate /verif/MANIFEST.json from harness/registry.py (single source of truth).
A property is claimed iff harness/<id>.py exists and the registry marks it claimed."""
import json
import os
import subprocess
import sys

HERE = os.path.dirname(os.path.abspath(__file__))
VERIF = os.path.dirname(HERE)
sys.path.insert(0, os.path.join(VERIF, "harness"))
import registry  # noqa: E402


def main():
    checks = []
    na = []
    for pid in registry.ALL:
        r = registry.PROPS.get(pid)
        have = os.path.exists(os.path.join(VERIF, "harness", pid.lower() + ".py"))
        if r is None or not r.get("claimed") or not have:
            na.append({"property_id": pid,
                       "reason": (r or {}).get("na_reason", "check not built yet (work in progress; see DESIGN.md section 6 for the plan)")})
            continue
        checks.append({
            "property_id": pid,
            "quick_cmd": f"./check {pid} --tier quick",
            "thorough_cmd": f"./check {pid} --tier thorough",
            "evidence_file": f"evidence/{pid}.json",
            "replay_cmd_template": f"./check {pid} --replay {{path}}",
            "engine": "tlc",
            "level_claimed": {"category": r["level"], "text": r["text"], "design_ref": r.get("design_ref", "DESIGN.md section 6 " + pid)},
            "level_note": r["note"],
            "technique": r["technique"],
        })
    try:
        hooks = subprocess.run(["git", "-C", "/repo", "log", "--format=%H", "--grep=^verif hooks"],
                               capture_output=True, text=True).stdout.split()
    except Exception:
        hooks = []
    m = {
        "version": 1,
        "setup_cmd": "sh tools/setup.sh",
        "hooks": {
            "guard": "NSL_VERIF",
            "enable": "checks copy /repo's working tree to a scratch directory and import it with NSL_VERIF=1 in the environment; "
                      "the hooks are module-level tracer/event slots in nsl/VM.py, nsl/Compiler.py, nsl/Errors.py that stay None unless the harness installs an observer",
            "baseline_off_cmd": "cd /repo && env -u NSL_VERIF /venv/bin/python -m pytest -q -p no:cacheprovider --timeout=900",
            "source_commits": hooks,
            "add_only": True,
        },
        "engines": [{"name": "tlc", "path": "/opt/veriftools/tla/tla2tools.jar",
                     "serves_properties": [c["property_id"] for c in checks],
                     "kind_free_text": "TLC 1.8 explicit-state model checker over the TLA+ modules in /verif/spec; "
                                       "Python drivers in /verif/harness bind the specification to the real code (spec->code replay, code->spec trace validation)"}],
        "checks": checks,
        "not_applicable": na,
        "notes": "Single entry point ./check <id> [--tier quick|thorough] [--replay path] [--selftest]. Exit 0 held / 1 VIOLATION / 2 machinery failure. "
                 "Known findings: known_findings.json (never written at run time). Seeded realistic breakages: seeded/<id>/.",
    }
    with open(os.path.join(VERIF, "MANIFEST.json"), "w") as f:
        json.dump(m, f, indent=1)
        f.write("\n")
    import jsonschema
    jsonschema.validate(m, json.load(open("/root/.vp/MANIFEST.schema.json")))
    print("MANIFEST.json: claimed", [c["property_id"] for c in checks], "not_applicable", len(na))


if __name__ == "__main__":
    main()
