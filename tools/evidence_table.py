#!/usr/bin/env python3
"""Print a markdown table of the committed evidence files (quick tier numbers quoted in DESIGN.md)."""
import glob
import json
print("| property | tier | seed | evaluations | TLC states | traces / cases validated against the implementation | non-trivial | violations | known findings | wall s |")
print("|---|---|---|---|---|---|---|---|---|---|")
for f in sorted(glob.glob("/verif/evidence/C*.json")):
    e = json.load(open(f))
    c = e["coverage"]
    print(f"| {e['property_id']} | {e['tier']} | {e['seed']} | {c.get('evaluations')} | {c.get('states')} | {c.get('traces_validated_against_impl')} | {c.get('distinct_nontrivial')} | {e['violations']} | {len(c.get('known_findings_seen', []))} | {e['wall_s']} |")
