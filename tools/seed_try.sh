#!/bin/sh
# usage: seed_try.sh <prop> <patch file> [tier]
# Run the property's check against /repo with a seeded change applied, then undo it.
# While a background sweep is reading /repo (SEED_TRY_WORKTREE=1) the change is applied to a scratch worktree
# and the check is pointed at it with VERIF_REPO; otherwise it is applied to /repo itself and undone straight afterwards.
prop=$1; patch=$2; tier=${3:-quick}
out=/tmp/seedtry.$prop.$$.out
if [ "${SEED_TRY_WORKTREE:-0}" = 1 ]; then
  wt=/tmp/wts/$prop.$$
  mkdir -p /tmp/wts; git -C /repo worktree add --detach "$wt" HEAD >/dev/null 2>&1 || exit 2
  git -C "$wt" apply "$patch" || { echo "patch does not apply"; git -C /repo worktree remove --force "$wt"; exit 2; }
  cd /verif && VERIF_REPO=$wt timeout 3000 ./check "$prop" --tier "$tier" > $out 2>&1; rc=$?
  git -C /repo worktree remove --force "$wt"
else
  git -C /repo apply "$patch" || { echo "patch does not apply"; exit 2; }
  cd /verif && timeout 3000 ./check "$prop" --tier "$tier" > $out 2>&1; rc=$?
  git -C /repo checkout -- .
  git -C /repo status --short | head -3
fi
echo "exit=$rc violations=$(grep -c '^VIOLATION' $out)"; grep "^VIOLATION\|^KNOWN" $out | cut -c1-260 | head -4; tail -1 $out | cut -c1-200
