#!/bin/sh
# TLAPS: the integer division of the reference semantics (spec/NslArith.tla, TruncDiv) truncates toward zero - for ALL integers.
# The proof module repeats the two definitions; this script first checks that they are textually the ones of NslArith.
cd "$(dirname "$0")/../spec" || exit 2
for d in 'Abs(x) == IF x < 0 THEN -x ELSE x' 'TruncDiv(a, b) == LET q == Abs(a) \div Abs(b) IN IF (a < 0) = (b < 0) THEN q ELSE -q'; do
  grep -qF "$d" NslArith.tla || { echo "definition differs from NslArith.tla: $d"; exit 1; }
  grep -qF "$d" proofs/TruncDivProof.tla || { echo "definition missing in the proof module: $d"; exit 1; }
done
work=$(mktemp -d /var/tmp/tlaps.XXXXXX); cp proofs/TruncDivProof.tla "$work"/ && cd "$work" && timeout 900 tlapm TruncDivProof.tla 2>&1 | grep "obligations" ; rc=$?; rm -rf "$work"; exit $rc
