#!/bin/sh
# usage: seed_round.sh <prop> <n> <number under seeded/> "<needs>" [source dir]
# Confirm a delivered change (tools/seed_confirm.py), then run the property's quick check against it in a scratch worktree.
prop=$1; n=$2; dn=$3; needs=$4; src=${5:-/tmp/seeds5/$prop}
cd /verif
python3 tools/seed_confirm.py "$prop" "$n" "$needs" "$src" "$dn" || exit 1
[ -d seeded/$prop-$dn ] || exit 1
SEED_TRY_WORKTREE=1 tools/seed_try.sh "$prop" "/verif/seeded/$prop-$dn/patch.diff"
