#!/usr/bin/env python3
"""Run every kept seeded change against the quick check of its property and record the outcome.
usage: seed_matrix.py [ids...]     (default: all of /verif/seeded/*)
For each change: scratch worktree of /repo's HEAD + patch, `VERIF_REPO=<worktree> ./check <prop> --tier quick`, worktree removed.
Writes /verif/seeded/MATRIX.json and fills meta.json["detected_by"]."""
import json
import os
import re
import subprocess
import sys

root = "/verif/seeded"
ids = sys.argv[1:] or sorted(d for d in os.listdir(root) if os.path.isdir(os.path.join(root, d)))
mpath = os.path.join(root, "MATRIX.json")
matrix = json.load(open(mpath)) if os.path.exists(mpath) else {}
head = subprocess.run("git -C /repo rev-parse --short HEAD", shell=True, capture_output=True, text=True).stdout.strip()
for sid in ids:
    prop = sid.split("-")[0]
    try:
        prop = json.load(open(os.path.join(root, sid, "meta.json"))).get("check_with", prop)      # a change that another property's check reports
    except Exception:
        pass
    wt = f"/tmp/wts/m{sid}"
    os.makedirs("/tmp/wts", exist_ok=True)
    subprocess.run(f"git -C /repo worktree remove --force {wt}", shell=True, capture_output=True)
    subprocess.run(f"git -C /repo worktree add --detach {wt} HEAD", shell=True, capture_output=True)
    a = subprocess.run(f"git -C {wt} apply {root}/{sid}/patch.diff", shell=True, capture_output=True, text=True)
    if a.returncode != 0:
        res = {"applies": False, "note": a.stderr.strip()[:200]}
    else:
        p = subprocess.run(f"cd /verif && VERIF_REPO={wt} timeout 2400 ./check {prop} --tier quick", shell=True, capture_output=True, text=True)
        keys = re.findall(r"^VIOLATION property=\S+ replay=/verif/replay[-a-z]*/(\S+)\.json", p.stdout, re.M)
        last = p.stdout.strip().splitlines()[-1] if p.stdout.strip() else ""
        res = {"applies": True, "exit": p.returncode, "detected": p.returncode == 1 and bool(keys), "violation_keys": keys[:4], "summary": last[:200], "repo_head": head}
    subprocess.run(f"git -C /repo worktree remove --force {wt}", shell=True, capture_output=True)
    matrix[sid] = res
    json.dump(matrix, open(mpath, "w"), indent=1, sort_keys=True)
    mp = os.path.join(root, sid, "meta.json")
    if os.path.exists(mp):
        meta = json.load(open(mp))
        meta["detected_by"] = (f"./check {prop} --tier quick -> exit 1, " + ", ".join(res.get("violation_keys", [])[:3])) if res.get("detected") else \
            ("NOT detected by ./check " + prop + " --tier quick (see DESIGN.md section 8)" if res.get("applies") else "patch no longer applies to the repaired tree (superseded)")
        meta["checked_against_repo_head"] = head
        json.dump(meta, open(mp, "w"), indent=1)
    print(sid, res.get("detected"), res.get("violation_keys", res.get("note")), flush=True)
