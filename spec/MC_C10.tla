------------------------------- MODULE MC_C10 -------------------------------
(***************************************************************************)
(* C10: overload resolution.  One TLC state per ORDERED set of up to       *)
(* MaxCands distinct signatures (up to two parameters over the type        *)
(* universe of the tier); the state's row carries NslTypes!Best for every  *)
(* argument type list.  Invariants: the answer does not depend on the      *)
(* declaration order; "chosen" is viable and strictly cheaper than every   *)
(* other viable candidate.  The driver replays every row at                *)
(* Scope.RegisterFunction / FindFunction and (sets of up to two) through   *)
(* the compiler and the VM.                                                *)
(***************************************************************************)
EXTENDS NslTypes, TLC, Json, SequencesExt

CONSTANTS Tier, MaxCands

Uni == IF Tier \in {"quick", "dups"} THEN {TInt, TFloat, Vec("float", 2)}
       ELSE IF Tier = "vectors" THEN {TInt, Vec("int", 2), Vec("float", 2), Vec("float", 3)}      \* several types of one shape class
       ELSE {TInt, TUInt, TFloat, Vec("int", 2), Vec("float", 2), Vec("float", 3)}
Sigs == {<<>>} \cup {<<a>> : a \in Uni} \cup {<<a, b>> : a \in Uni, b \in Uni}
ArgSeq == SetToSeq(Sigs)                      \* fixed order of the argument lists in a row
Names(sig) == [i \in 1..Len(sig) |-> TypeName(sig[i])]
ASSUME PrintT(ToJson([argseq |-> [i \in 1..Len(ArgSeq) |-> Names(ArgSeq[i])]]))

VARIABLE cands
vars == <<cands>>
Distinct(s) == \A i, j \in 1..Len(s) : i # j => s[i] # s[j]
\* Tier "dups": the same parameter list declared twice (the two declarations differ in their result type only, which is no part of a
\* signature): every viable call has two best candidates
Init == IF Tier = "dups" THEN cands \in {<<s, s>> : s \in Sigs}
        ELSE cands \in {s \in UNION {[1..n -> Sigs] : n \in 1..MaxCands} : Distinct(s)}
Next == UNCHANGED cands
Spec == Init /\ [][Next]_vars

Code(b) == CASE b.kind = "chosen" -> b.which [] b.kind = "nomatch" -> 0 [] b.kind = "ambiguous" -> -1 [] b.kind = "unknown" -> -2
Row == [i \in 1..Len(ArgSeq) |-> Code(Best(cands, ArgSeq[i]))]

\* the chosen SIGNATURE (not its index) is the same for every declaration order
Perms == {p \in [1..Len(cands) -> 1..Len(cands)] : \A i, j \in 1..Len(cands) : i # j => p[i] # p[j]}
Chosen(cs, args) == LET b == Best(cs, args) IN IF b.kind = "chosen" THEN <<"chosen", cs[b.which]>> ELSE <<b.kind, <<>>>>
OrderIndependent == \A p \in Perms : \A a \in Sigs :
                       Chosen([i \in 1..Len(cands) |-> cands[p[i]]], a) = Chosen(cands, a)
ChosenIsBest == \A a \in Sigs : LET b == Best(cands, a) IN
                   b.kind = "chosen" =>
                      /\ Viable(cands[b.which], a)
                      /\ \A j \in 1..Len(cands) : (j # b.which /\ Viable(cands[j], a)) => Cost(cands[b.which], a) < Cost(cands[j], a)
RejectedRight == \A a \in Sigs : LET b == Best(cands, a) IN
                   /\ (b.kind = "nomatch" <=> \A j \in 1..Len(cands) : ~Viable(cands[j], a))
                   /\ (b.kind = "ambiguous" => \E i, j \in 1..Len(cands) : i # j /\ Viable(cands[i], a) /\ Viable(cands[j], a)
                                                                              /\ Cost(cands[i], a) = Cost(cands[j], a))
Report == PrintT(ToJson([cands |-> [i \in 1..Len(cands) |-> Names(cands[i])], row |-> Row]))
=============================================================================
