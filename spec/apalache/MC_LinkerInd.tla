---------------------------- MODULE MC_LinkerInd ----------------------------
(* Apalache entry points for LinkerInd: initial predicates that ASSIGN every variable (sequences through Gen). *)
EXTENDS LinkerInd, Apalache

\* the initial states of Linker.tla, for N = 6
ApaInit == /\ dag \in [Mods -> SUBSET Mods] /\ IsDag(dag)
           /\ clash \in BOOLEAN
           /\ order = Gen(N) /\ IsOrder(order)
           /\ todo = order /\ present = {} /\ loads = [m \in Mods |-> 0] /\ funcs = {} /\ pending = {} /\ phase = "adding"

\* an arbitrary state satisfying IndInv
IndInit == /\ dag \in [Mods -> SUBSET Mods]
           /\ clash \in BOOLEAN
           /\ order = Gen(N) /\ todo = Gen(N)
           /\ present \in SUBSET Mods /\ funcs \in SUBSET Mods /\ pending \in SUBSET Mods
           /\ loads \in [Mods -> 0..1]
           /\ phase \in {"adding", "linking", "done", "rejected"}
           /\ IndInv
=============================================================================
