--------------------------- MODULE MC_LinkerIndTLC ---------------------------
(* TLC entry point for LinkerInd (with N redefined to 3 in the cfg): IndInv and Props as ordinary invariants of every reachable state. *)
EXTENDS LinkerInd
TLCInit == /\ dag \in [Mods -> SUBSET Mods] /\ IsDag(dag)
           /\ clash \in BOOLEAN
           /\ order \in UNION {[1..k -> Mods] : k \in 1..N} /\ IsOrder(order)
           /\ todo = order /\ present = {} /\ loads = [m \in Mods |-> 0] /\ funcs = {} /\ pending = {} /\ phase = "adding"
TLCSpec == TLCInit /\ [][Next]_vars
=============================================================================
