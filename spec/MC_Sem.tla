------------------------------- MODULE MC_Sem -------------------------------
(***************************************************************************)
(* Root module that runs NslSem on a batch of (program, entry, arguments,  *)
(* initial globals) cases read from the JSON file named by the environment *)
(* variable BATCH, one independent behaviour per case, and prints the      *)
(* outcome the language prescribes for each case (one JSON line per case). *)
(* The driver compares the line with what the real compiler + VM did.      *)
(*   Batch = [progs : Seq(prog), cases : Seq([id, p, entry, args, globals])]*)
(***************************************************************************)
EXTENDS Integers, Sequences, FiniteSets, TLC, Json, IOUtils

Batch == JsonDeserialize(IOEnv.BATCH)
CaseOf(c) == [prog |-> Batch.progs[Batch.cases[c].p], entry |-> Batch.cases[c].entry,
              args |-> Batch.cases[c].args, globals |-> Batch.cases[c].globals]
CaseIds == 1..Len(Batch.cases)
Fuel == 30000

VARIABLES cid, ctl, vals, frames, globals, status, ret, steps, calls
INSTANCE NslSem

Init == SInit
Next == SNext
Spec == SSpec
Report == status # "run" =>
   PrintT(ToJson([id |-> Batch.cases[cid].id, status |-> status, ret |-> ret, globals |-> globals,
                  steps |-> steps, calls |-> calls]))
=============================================================================
