----------------------------- MODULE LinkerInd -----------------------------
(***************************************************************************)
(* Inductive invariant for spec/Linker.tla, discharged symbolically by     *)
(* Apalache (tools/apalache_linker.sh):                                    *)
(*     Init => IndInv                       (--length=0)                   *)
(*     IndInv /\ Next => IndInv'            (--init=IndInit --length=1)    *)
(*     IndInv => LoadedOnce /\ OrderIndependent /\ ClashRejected           *)
(* TLC's run of Linker.tla enumerates every DAG / order / loading order    *)
(* for N <= 3 (4 with one root); this module establishes the same three    *)
(* invariants for N = 6 modules, every import DAG, every host order and    *)
(* every reachable state at once, without enumerating behaviours.          *)
(*                                                                         *)
(* The state, the initial condition and the actions are those of Linker    *)
(* (same names, same guards, same updates; only the printing operator      *)
(* Report and the RECURSIVE Closure are left out: Closure is unrolled N     *)
(* times, which is exact for N modules).  tools/apalache_linker.sh also    *)
(* lets TLC check `IndInv` as an ordinary invariant of THIS module for     *)
(* N = 3, and harness/c16.py diffs the action definitions of the two       *)
(* modules textually, so the two cannot drift apart silently.              *)
(***************************************************************************)
EXTENDS Integers, Sequences, FiniteSets

N == 6
WithClash == TRUE

Mods == 1..N

VARIABLES
  \* @type: Int -> Set(Int);
  dag,
  \* @type: Bool;
  clash,
  \* @type: Seq(Int);
  order,
  \* @type: Seq(Int);
  todo,
  \* @type: Set(Int);
  present,
  \* @type: Int -> Int;
  loads,
  \* @type: Set(Int);
  funcs,
  \* @type: Set(Int);
  pending,
  \* @type: Str;
  phase

vars == <<dag, clash, order, todo, present, loads, funcs, pending, phase>>

\* @type: (Bool, Int) => Int;
Def(c, m) == IF c /\ m = N /\ N > 1 THEN 1 ELSE m
\* @type: (Seq(Int)) => Set(Int);
Range(s) == {s[i] : i \in DOMAIN s}

\* @type: (Int -> Set(Int)) => Bool;
IsDag(d) == DOMAIN d = Mods /\ \A m \in Mods : d[m] \subseteq Mods /\ \A j \in d[m] : j > m
\* @type: (Seq(Int)) => Bool;
IsOrder(s) == /\ Len(s) >= 1 /\ Len(s) <= N
              /\ \A i \in DOMAIN s : s[i] \in Mods
              /\ \A i, j \in DOMAIN s : i # j => s[i] # s[j]

Take(m) == IF Def(clash, m) \in funcs
           THEN /\ phase' = "rejected" /\ UNCHANGED <<present, funcs, pending>>
           ELSE /\ present' = present \cup {m} /\ funcs' = funcs \cup {Def(clash, m)} /\ pending' = pending \cup dag[m] /\ UNCHANGED phase
HostAdd == /\ phase = "adding" /\ todo # <<>> /\ Take(Head(todo)) /\ todo' = Tail(todo) /\ UNCHANGED <<dag, clash, order, loads>>
StartLink == /\ phase = "adding" /\ todo = <<>> /\ phase' = "linking" /\ UNCHANGED <<dag, clash, order, todo, present, loads, funcs, pending>>
LoadImport(m) == /\ phase = "linking" /\ m \in pending /\ m \notin present
                 /\ loads' = [loads EXCEPT ![m] = @ + 1] /\ Take(m) /\ UNCHANGED <<dag, clash, order, todo>>
Finish == /\ phase = "linking" /\ pending \subseteq present /\ phase' = "done" /\ UNCHANGED <<dag, clash, order, todo, present, loads, funcs, pending>>
Next == HostAdd \/ StartLink \/ (\E m \in Mods : LoadImport(m)) \/ Finish

\* the import closure of the modules the host adds: N rounds reach every module of an N-module graph
\* @type: (Set(Int)) => Set(Int);
Grow(s) == s \cup UNION {dag[m] : m \in s}
Want == Grow(Grow(Grow(Grow(Grow(Grow(Range(order)))))))
HasClash == \E a, b \in Want : a # b /\ Def(clash, a) = Def(clash, b)

LoadedOnce == \A m \in Mods : loads[m] <= 1 /\ (m \in Range(order) => loads[m] = 0)
OrderIndependent == phase = "done" => /\ present = Want /\ funcs = {Def(clash, m) : m \in Want}
                                      /\ \A m \in Want \ Range(order) : loads[m] = 1
ClashRejected == (phase = "done" => ~HasClash) /\ (phase = "rejected" => HasClash)
Props == LoadedOnce /\ OrderIndependent /\ ClashRejected

TypeOK == /\ dag \in [Mods -> SUBSET Mods] /\ IsDag(dag)
          /\ clash \in BOOLEAN
          /\ IsOrder(order)
          /\ Len(todo) <= Len(order) /\ \A i \in DOMAIN todo : todo[i] \in Mods
          /\ present \subseteq Mods /\ funcs \subseteq Mods /\ pending \subseteq Mods
          /\ loads \in [Mods -> 0..1]
          /\ phase \in {"adding", "linking", "done", "rejected"}

\* what the linker holds is always consistent with the modules taken so far
Consistent == /\ present \subseteq Want
              /\ Want = Grow(Want)                                   \* six rounds are a fixed point
              /\ funcs = {Def(clash, m) : m \in present}
              /\ \A a, b \in present : a # b => Def(clash, a) # Def(clash, b)
              /\ pending = UNION {dag[m] : m \in present}
              /\ \A m \in Mods : loads[m] = (IF m \in present \ Range(order) THEN 1 ELSE 0)

\* a rejection was caused by a module of the closure whose name is already defined by another one;
\* `culprit` is existentially quantified, the state does not record it
Rejected == /\ present \subseteq Want
            /\ Want = Grow(Want)
            /\ funcs = {Def(clash, m) : m \in present}
            /\ \E c \in Want \ present : Def(clash, c) \in funcs
            /\ \A m \in Mods : loads[m] <= 1 /\ (m \in Range(order) => loads[m] = 0)

IndInv == /\ TypeOK
          /\ phase = "rejected" => Rejected
          /\ phase # "rejected" => Consistent
          /\ phase = "adding" => \E k \in 0..N :
                                     /\ k <= Len(order) /\ Len(todo) = Len(order) - k
                                     /\ \A i \in 1..N : i <= Len(todo) => todo[i] = order[k + i]
                                     /\ present = {order[i] : i \in {j \in DOMAIN order : j <= k}}
          /\ phase \in {"linking", "done"} => Range(order) \subseteq present /\ todo = <<>>
          /\ phase = "done" => pending \subseteq present

=============================================================================
