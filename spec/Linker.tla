------------------------------- MODULE Linker -------------------------------
(***************************************************************************)
(* Loading and linking separately compiled modules (property C16).         *)
(*                                                                         *)
(* Modules 1..N; module m imports the modules Imports[m] (only higher      *)
(* numbers, so the import graph is acyclic) and defines one function       *)
(* Def[m].  The host adds the modules of `order` one after the other and   *)
(* then links:                                                             *)
(*   HostAdd      the host passes the next module to the linker            *)
(*   StartLink    the host calls Link                                      *)
(*   LoadImport   the linker loads one pending import it does not have yet *)
(*                (in ANY order - TLC explores all of them)                *)
(*   Finish       nothing is pending: the program is complete              *)
(*   Reject       a function would be defined twice                        *)
(* TLC explores every import DAG on N modules, every non-empty sequence of *)
(* distinct modules the host can add, with and without a clash of function *)
(* names, and checks:                                                      *)
(*   LoadedOnce        no module is loaded more than once, and never if    *)
(*                     the host added it                                   *)
(*   OrderIndependent  the finished program consists of exactly the        *)
(*                     definitions of the import closure, whatever the     *)
(*                     order of adding and loading                         *)
(*   ClashRejected     a clash of names in the closure never links         *)
(***************************************************************************)
EXTENDS Integers, Sequences, FiniteSets, TLC, Json

CONSTANTS N, WithClash, RootOnly        \* RootOnly: the host adds module 1 only (a larger N stays small)

Mods == 1..N
Dags == {d \in [Mods -> SUBSET Mods] : \A m \in Mods : \A j \in d[m] : j > m}
Orders == IF RootOnly THEN {<<1>>} ELSE UNION {{s \in [1..k -> Mods] : \A i, j \in 1..k : i # j => s[i] # s[j]} : k \in 1..N}
\* function names: normally module m defines "f<m>"; with a clash, module N defines the same name as module 1
Defs(clash) == [m \in Mods |-> IF clash /\ m = N /\ N > 1 THEN 1 ELSE m]

VARIABLES dag, clash, order, todo, present, loads, funcs, pending, phase
vars == <<dag, clash, order, todo, present, loads, funcs, pending, phase>>

RECURSIVE Closure(_, _)
Closure(d, s) == LET t == s \cup UNION {d[m] : m \in s} IN IF t = s THEN s ELSE Closure(d, t)
Range(s) == {s[i] : i \in 1..Len(s)}

Init == /\ dag \in Dags /\ clash \in (IF WithClash THEN BOOLEAN ELSE {FALSE}) /\ order \in Orders
        /\ todo = order /\ present = {} /\ loads = [m \in Mods |-> 0] /\ funcs = {} /\ pending = {} /\ phase = "adding"

\* the linker receives module m (from the host or from the loader)
Take(m) == IF Defs(clash)[m] \in funcs
           THEN /\ phase' = "rejected" /\ UNCHANGED <<present, funcs, pending>>
           ELSE /\ present' = present \cup {m} /\ funcs' = funcs \cup {Defs(clash)[m]} /\ pending' = pending \cup dag[m] /\ UNCHANGED phase
HostAdd == /\ phase = "adding" /\ todo # <<>> /\ Take(Head(todo)) /\ todo' = Tail(todo) /\ UNCHANGED <<dag, clash, order, loads>>
StartLink == /\ phase = "adding" /\ todo = <<>> /\ phase' = "linking" /\ UNCHANGED <<dag, clash, order, todo, present, loads, funcs, pending>>
LoadImport(m) == /\ phase = "linking" /\ m \in pending /\ m \notin present
                 /\ loads' = [loads EXCEPT ![m] = @ + 1] /\ Take(m) /\ UNCHANGED <<dag, clash, order, todo>>
Finish == /\ phase = "linking" /\ pending \subseteq present /\ phase' = "done" /\ UNCHANGED <<dag, clash, order, todo, present, loads, funcs, pending>>
Next == HostAdd \/ StartLink \/ (\E m \in Mods : LoadImport(m)) \/ Finish
Spec == Init /\ [][Next]_vars
\* liveness (checked under weak fairness of the linker's steps): every link attempt ends - done or rejected -, no import is waited for forever
FairSpec == Spec /\ WF_vars(Next)
Terminates == <>(phase \in {"done", "rejected"})

Want == Closure(dag, Range(order))
HasClash == \E a, b \in Want : a # b /\ Defs(clash)[a] = Defs(clash)[b]
LoadedOnce == \A m \in Mods : loads[m] <= 1 /\ (m \in Range(order) => loads[m] = 0)
OrderIndependent == phase = "done" => /\ present = Want /\ funcs = {Defs(clash)[m] : m \in Want}
                                      /\ \A m \in Want \ Range(order) : loads[m] = 1
ClashRejected == (phase = "done" => ~HasClash) /\ (phase = "rejected" => HasClash)
Report == phase \in {"done", "rejected"} =>
            PrintT(ToJson([dag |-> [m \in Mods |-> dag[m]], clash |-> clash, order |-> order, outcome |-> phase,
                           want |-> Want, loads |-> loads]))
=============================================================================
