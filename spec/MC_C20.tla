------------------------------- MODULE MC_C20 -------------------------------
(***************************************************************************)
(* C20: source positions, three exhaustive families over SourceMap.        *)
(*  off    every text over {c, n} up to MaxText characters: the line of    *)
(*         every offset and the start offset of every line;                *)
(*  span   every text up to MaxSpan characters x every range [b, e]: the   *)
(*         reported range, which must designate exactly [b, e) again;      *)
(*  layout a fixed token list of a small program (global, function,        *)
(*         parameters, declarations, a redeclared name) x every choice of  *)
(*         separator at the varied gaps: the range of every identifier and *)
(*         the hull of every composite construct.                          *)
(***************************************************************************)
EXTENDS SourceMap, TLC, Json

CONSTANTS MaxText, MaxSpan, VariedGaps          \* VariedGaps: number of gaps (of the 5 designated ones) that vary

Texts(n) == UNION {[1..k -> {"c", "n"}] : k \in 0..n}

\* ---- the program of the layout family: <<token text, length>>
Toks == << <<"int", 3>>, <<"g", 1>>, <<";", 1>>, <<"export", 6>>, <<"function", 8>>, <<"f", 1>>, <<"(", 1>>, <<"int", 3>>, <<"aa", 2>>, <<",", 1>>,
           <<"float", 5>>, <<"b", 1>>, <<")", 1>>, <<"->", 2>>, <<"int", 3>>, <<"{", 1>>, <<"int", 3>>, <<"xyz", 3>>, <<"=", 1>>, <<"aa", 2>>,
           <<"+", 1>>, <<"g", 1>>, <<";", 1>>,
           <<"while", 5>>, <<"(", 1>>, <<"xyz", 3>>, <<"<", 1>>, <<"aa", 2>>, <<")", 1>>, <<"{", 1>>, <<"xyz", 3>>, <<"=", 1>>, <<"xyz", 3>>, <<"+", 1>>,
           <<"h", 1>>, <<";", 1>>, <<"}", 1>>,
           <<"++", 2>>, <<"xyz", 3>>, <<";", 1>>, <<"xyz", 3>>, <<"--", 2>>, <<";", 1>>,
           <<"float", 5>>, <<"aa", 2>>, <<"=", 1>>, <<"b", 1>>, <<";", 1>>,
           <<"float", 5>>, <<"hf", 2>>, <<"=", 1>>, <<"0.5f", 4>>, <<";", 1>>,
           <<"float2", 6>>, <<"pv", 2>>, <<";", 1>>, <<"hf", 2>>, <<"=", 1>>, <<"pv", 2>>, <<".", 1>>, <<"y", 1>>, <<";", 1>>,
           <<"xyz", 3>>, <<"+=", 2>>, <<"aa", 2>>, <<"*", 1>>, <<"g", 1>>, <<";", 1>>, <<"return", 6>>, <<"xyz", 3>>,
           <<";", 1>>, <<"}", 1>>, <<"int", 3>>, <<"h", 1>>, <<";", 1>> >>
Lens == [i \in 1..Len(Toks) |-> Toks[i][2]]
\* identifiers that carry a location, by token index
Located == [gdecl |-> 2, pa |-> 9, pb |-> 12, xdecl |-> 18, ause |-> 20, guse |-> 22, wcondx |-> 26, wconda |-> 28, wasgx |-> 31, wrhsx |-> 33, wrhsh |-> 35,
            incx |-> 39, decx |-> 41, aredecl |-> 45, buse |-> 47, hfdecl |-> 50, hflit |-> 52, pvdecl |-> 55, hfuse |-> 57, pvuse |-> 59, casgx |-> 63, casga |-> 65, casgg |-> 67, xuse |-> 70, hdecl |-> 74]
\* composite constructs: the located tokens they contain (a while loop's condition precedes its body in the text; the
\* global h is written after the function)
Composites == [sum |-> {20, 22}, xdeclstmt |-> {18, 20, 22}, whilecond |-> {26, 28}, whilestmt |-> {26, 28, 31, 33, 35}, aredeclstmt |-> {45, 47},
               hfdeclstmt |-> {50, 52}, memberexpr |-> {59, 61}, masgstmt |-> {57, 59, 61}, casgprod |-> {65, 67}, casgstmt |-> {63, 65, 67},
               retstmt |-> {70}, function |-> {9, 12, 18, 20, 22, 26, 28, 31, 33, 35, 39, 41, 45, 47, 50, 52, 55, 57, 59, 61, 63, 65, 67, 70}, module |-> {2, 9, 70, 74}]
S1 == <<"s">>
Seps == {<<"s">>, <<"n">>, <<"n", "n">>, <<"s", "n", "s", "s">>, <<"s", "s", "s">>}
Lead == {<<>>, <<"n">>, <<"s", "s">>, <<"n", "s">>, <<"b">>, <<"b", "n">>}   \* white space before the first token; "b" = a byte-order mark (one character)
Designated5 == <<1, 18, 31, 45, 9>>                              \* the gaps that can vary, in order of priority
VarGaps == {Designated5[i] : i \in 1..VariedGaps}
LeadChoices == IF 1 \in VarGaps THEN Lead ELSE {<<>>}
OtherVar == VarGaps \ {1}
Layouts == {[i \in 1..Len(Toks) |-> IF i = 1 THEN ld ELSE IF i \in OtherVar THEN ch[i] ELSE S1] : ld \in LeadChoices, ch \in [OtherVar -> Seps]}

VARIABLE case
Init == \/ \E t \in Texts(MaxText) : case = [kind |-> "off", text |-> t]
        \/ \E t \in Texts(MaxSpan) : case = [kind |-> "span", text |-> t]
        \/ \E g \in Layouts : case = [kind |-> "layout", gaps |-> g]
Next == UNCHANGED case
Spec == Init /\ [][Next]_case

\* sequences: entry i is for offset (line) i - 1
OffRow(t) == [i \in 1..(Len(t) + 1) |-> [line |-> LineOf(t, i - 1), start |-> LineStart(t, LineOf(t, i - 1))]]
StartsRow(t) == [i \in 1..LineCount(t) |-> LineStart(t, i - 1)]
Spans(t) == {<<b, e>> : b \in 0..Len(t), e \in 0..Len(t)} \cap {s \in (0..Len(t)) \X (0..Len(t)) : s[1] <= s[2]}
SpanRow(t) == {[b |-> s[1], e |-> s[2], r |-> Range(t, s[1], s[2])] : s \in Spans(t)}

LText == LayoutText(case.gaps, Lens)
TokRange(i) == LET s == TokenSpan(case.gaps, Lens, i) IN Range(LText, s[1], s[2])
HullRange(set) == LET h == Hull({TokenSpan(case.gaps, Lens, i) : i \in set}) IN Range(LText, h[1], h[2])

\* laws checked on every case
LinesAgree == case.kind = "off" => \A o \in 0..Len(case.text) : LineOf(case.text, o) = LineOf2(case.text, o)
StartsIncrease == case.kind = "off" => \A l \in 1..(LineCount(case.text) - 1) : LineStart(case.text, l) > LineStart(case.text, l - 1)
RangesRoundTrip == case.kind = "span" => \A s \in Spans(case.text) : RoundTrip(case.text, s[1], s[2])
TokensRoundTrip == case.kind = "layout" => \A i \in 1..Len(Toks) :
                      LET s == TokenSpan(case.gaps, Lens, i) IN RoundTrip(LText, s[1], s[2])

Report ==
  PrintT(ToJson(
    CASE case.kind = "off" -> [kind |-> "off", text |-> case.text, rows |-> OffRow(case.text), starts |-> StartsRow(case.text)]
      [] case.kind = "span" -> [kind |-> "span", text |-> case.text, rows |-> SpanRow(case.text)]
      [] case.kind = "layout" -> [kind |-> "layout", gaps |-> case.gaps, toks |-> [i \in 1..Len(Toks) |-> Toks[i][1]],
                                  located |-> [k \in DOMAIN Located |-> TokRange(Located[k])],
                                  composites |-> [k \in DOMAIN Composites |-> HullRange(Composites[k])]]))
=============================================================================
