--------------------------- MODULE CompileHistory ---------------------------
(***************************************************************************)
(* Compilation as a function of its input (property C18).                  *)
(*                                                                         *)
(* A process compiles a sequence of (source, options) requests, each with  *)
(* a fresh compiler object.  The specification's only state is `seen`: for *)
(* every request already observed ANYWHERE - earlier in the same process,  *)
(* in another process, under another hash seed - the digest of its output. *)
(*   Compile(r, d)   admissible iff r was never seen, or was seen with d   *)
(* Two uses:                                                               *)
(*  - enumeration (MC mode): TLC generates every request sequence up to    *)
(*    MaxLen over the library; the driver replays each in fresh processes; *)
(*  - trace validation: the events recorded by those processes (process,   *)
(*    position, request, digest) are consumed one by one; the first event  *)
(*    whose digest contradicts `seen` is the verdict.                      *)
(***************************************************************************)
EXTENDS Integers, Sequences, FiniteSets, TLC, Json, IOUtils

CONSTANTS Mode, NReq, MaxLen          \* Mode = "enum": sequences over 1..NReq up to MaxLen;  Mode = "trace": read BATCH

Trace == IF Mode = "trace" THEN JsonDeserialize(IOEnv.BATCH) ELSE <<>>     \* Seq([proc, pos, req, digest, seed, earlier : Seq(req)])

VARIABLES hist, seen, l, bad
vars == <<hist, seen, l, bad>>

Init == /\ hist = <<>> /\ seen = <<>> /\ l = 1 /\ bad = <<>>       \* seen: function from request to digest, as a set of pairs kept in a sequence-free form
\* ---- enumeration mode: one more request
Extend(r) == /\ Mode = "enum" /\ Len(hist) < MaxLen /\ hist' = Append(hist, r) /\ UNCHANGED <<seen, l, bad>>
\* ---- trace mode: consume event l
Known(r) == \E i \in 1..Len(seen) : seen[i].req = r
DigestOf(r) == seen[CHOOSE i \in 1..Len(seen) : seen[i].req = r].digest
Consume == /\ Mode = "trace" /\ bad = <<>> /\ l <= Len(Trace)
           /\ LET e == Trace[l] IN
              IF ~Known(e.req) THEN /\ seen' = Append(seen, [req |-> e.req, digest |-> e.digest, first |-> e]) /\ bad' = bad
              ELSE IF DigestOf(e.req) = e.digest THEN UNCHANGED <<seen, bad>>
              ELSE /\ bad' = <<e, seen[CHOOSE i \in 1..Len(seen) : seen[i].req = e.req].first>> /\ UNCHANGED seen
           /\ l' = l + 1 /\ UNCHANGED hist
Next == (\E r \in 1..NReq : Extend(r)) \/ Consume
Spec == Init /\ [][Next]_vars

\* the output is a function of the request: one digest per request, whatever came before
FunctionOfInput == \A i, j \in 1..Len(seen) : seen[i].req = seen[j].req => i = j
\* seen only grows, and a digest once recorded never changes
Stable == [][\A i \in 1..Len(seen) : seen'[i] = seen[i]]_vars
ReportEnum == (Mode = "enum" /\ Len(hist) >= 1) => PrintT(ToJson([hist |-> hist]))
ReportTrace == (Mode = "trace" /\ (bad # <<>> \/ l = Len(Trace) + 1)) =>
                  PrintT(ToJson([consumed |-> l - 1, requests |-> Len(seen), bad |-> bad]))
=============================================================================
