------------------------------- MODULE MC_C19 -------------------------------
(***************************************************************************)
(* C19, value side: the 32-bit patterns around every 7-bit group boundary  *)
(* and every sign-bit boundary (2^6, 2^7, 2^13, 2^14, ..., 2^27, 2^28,     *)
(* 2^31, 2^32 - 1), each read as an unsigned and as a signed integer, plus *)
(* (thorough tier) every value up to 2^Exh.  For every pattern TLC checks  *)
(* that the standard decoders invert the reference encoders and prints the *)
(* pattern; the driver writes the value with the real writer and a second  *)
(* TLC run (Leb128Trace) decodes the bytes the implementation produced.    *)
(***************************************************************************)
EXTENDS Leb128, TLC, Json

CONSTANTS W, Exh          \* half-width of the windows; exhaustive range 0 .. 2^Exh - 1 (0 = none)

RECURSIVE P2(_)
P2(k) == IF k = 0 THEN 1 ELSE 2 * P2(k - 1)
Boundaries == {6, 7, 13, 14, 20, 21, 27, 28}
Small32 == {P2(k) + d : k \in Boundaries, d \in (-W)..W} \cup {d : d \in 0..W} \cup {P2(30) + d : d \in (-W)..W}
           \cup (IF Exh = 0 THEN {} ELSE 0..(P2(Exh) - 1))
\* patterns: non-negative TLC integers, their negations (two's complement), and the top of the unsigned range
Patterns == {IntBits(i) : i \in Small32} \cup {IntBits(-i) : i \in Small32} \cup {IntBits(-i - 1) : i \in Small32}
            \cup {[k \in 1..32 |-> IF k = 32 THEN 1 ELSE NatBits(d)[k]] : d \in 0..W}          \* 2^31 + d  (= INT32_MIN + d)
            \cup {[k \in 1..32 |-> IF k = 32 THEN 0 ELSE 1 - NatBits(d)[k]] : d \in 0..W}      \* 2^31 - 1 - d (INT32_MAX - d)

VARIABLE bits
Init == bits \in Patterns
Next == UNCHANGED bits
Spec == Init /\ [][Next]_bits

RoundTripU == LET e == EncU(bits) r == ReadU(e, 1) IN r.ok /\ r.bits = bits /\ r.next = Len(e) + 1
RoundTripS == LET e == EncS(bits) r == ReadS(e, 1) IN r.ok /\ r.bits = bits /\ r.next = Len(e) + 1
\* the encodings are well formed: continuation flag on all bytes but the last, at most five bytes
WellFormed == \A e \in {EncU(bits), EncS(bits)} : Len(e) \in 1..5 /\ e[Len(e)] < 128 /\ \A j \in 1..(Len(e) - 1) : e[j] >= 128
\* a padded (non-minimal) encoding decodes to the same value
PaddedU == LET e == EncU(bits) IN
           Len(e) < 5 => LET pad == [j \in 1..(Len(e) + 1) |-> IF j < Len(e) THEN e[j] ELSE IF j = Len(e) THEN e[j] + 128 ELSE 0] IN
                         ReadU(pad, 1).ok /\ ReadU(pad, 1).bits = bits
Report == PrintT(ToJson([bits |-> bits, encu |-> EncU(bits), encs |-> EncS(bits)]))
=============================================================================
