------------------------------ MODULE NslParse ------------------------------
(***************************************************************************)
(* Binary-operator grammar of NSL: six precedence levels, all left         *)
(* associative, parentheses around a binary expression override.           *)
(*                                                                         *)
(* Two formulations of the same language rule:                             *)
(*  - an operator-precedence shift/reduce MACHINE (variables toks, pos,    *)
(*    opds, ops, done; actions ShiftOperand, ShiftOpen, ShiftOperator,     *)
(*    Reduce, CloseParen, Finish) - one action per parser step, as an LALR *)
(*    parser driven by a precedence table performs them;                   *)
(*  - a recursive FUNCTION ParseExpr(toks) (precedence climbing) that other*)
(*    modules (NslSem) call to give an expression text its tree.           *)
(* MC_C08 checks that both agree on every enumerated token sequence and    *)
(* that the result respects precedence (PrecedenceRespected) and keeps the *)
(* operand order (Frontier).                                               *)
(*                                                                         *)
(* Tokens:  [k |-> "opd", x |-> payload]   operand (payload opaque)        *)
(*          [k |-> "op",  o |-> "+"]       one of the 13 binary operators  *)
(*          [k |-> "lp"], [k |-> "rp"]                                     *)
(* Trees:   [k |-> "leaf", x |-> payload]                                  *)
(*          [k |-> "bin", o |-> op, l |-> tree, r |-> tree, p |-> BOOLEAN] *)
(*          (p: the node was written inside its own pair of parentheses)   *)
(***************************************************************************)
EXTENDS Integers, Sequences, FiniteSets

Operators == {"||", "&&", "==", "!=", "<", "<=", ">", ">=", "+", "-", "*", "/", "%"}

\* the declared precedence, from loosest (1) to tightest (6)
Level(o) == CASE o = "||" -> 1
              [] o = "&&" -> 2
              [] o \in {"==", "!="} -> 3
              [] o \in {"<", "<=", ">", ">="} -> 4
              [] o \in {"+", "-"} -> 5
              [] o \in {"*", "/", "%"} -> 6

Opd(x) == [k |-> "opd", x |-> x]
Op(o) == [k |-> "op", o |-> o]
LP == [k |-> "lp"]
RP == [k |-> "rp"]
Leaf(x) == [k |-> "leaf", x |-> x]
Bin(o, l, r) == [k |-> "bin", o |-> o, l |-> l, r |-> r, p |-> FALSE]
Paren(t) == IF t.k = "bin" THEN [t EXCEPT !.p = TRUE] ELSE t

-----------------------------------------------------------------------------
(* The function: precedence climbing.                                       *)
RECURSIVE PExpr(_, _, _), PLoop(_, _, _, _)
PPrimary(toks, i) ==
  IF toks[i].k = "lp"
  THEN LET r == PExpr(toks, i + 1, 1) IN [t |-> Paren(r.t), i |-> r.i + 1]      \* skip ")"
  ELSE [t |-> Leaf(toks[i].x), i |-> i + 1]
PLoop(toks, lhs, i, minl) ==
  IF i <= Len(toks) /\ toks[i].k = "op" /\ Level(toks[i].o) >= minl
  THEN LET o == toks[i].o
           r == PExpr(toks, i + 1, Level(o) + 1)      \* left associative: right side binds tighter
       IN PLoop(toks, Bin(o, lhs, r.t), r.i, minl)
  ELSE [t |-> lhs, i |-> i]
PExpr(toks, i, minl) == LET p == PPrimary(toks, i) IN PLoop(toks, p.t, p.i, minl)

ParseExpr(toks) == PExpr(toks, 1, 1).t

\* in-order token sequence of a tree (parentheses where the tree says so)
RECURSIVE Unparse(_)
Unparse(t) == IF t.k = "leaf" THEN <<Opd(t.x)>>
              ELSE (IF t.p THEN <<LP>> ELSE <<>>) \o Unparse(t.l) \o <<Op(t.o)>> \o Unparse(t.r)
                   \o (IF t.p THEN <<RP>> ELSE <<>>)

\* the tree the language defines for the text obtained by printing tree t in order
Regroup(t) == ParseExpr(Unparse(t))

RECURSIVE Frontier(_)
Frontier(t) == IF t.k = "leaf" THEN <<t.x>> ELSE Frontier(t.l) \o Frontier(t.r)
Operands(toks) == LET idx == {i \in 1..Len(toks) : toks[i].k = "opd"}
                      RECURSIVE Collect(_)
                      Collect(i) == IF i > Len(toks) THEN <<>>
                                    ELSE (IF i \in idx THEN <<toks[i].x>> ELSE <<>>) \o Collect(i + 1)
                  IN Collect(1)

\* no child binds looser than its parent unless parenthesised; equal level only on the left
RECURSIVE PrecedenceRespected(_)
PrecedenceRespected(t) ==
  \/ t.k = "leaf"
  \/ /\ PrecedenceRespected(t.l) /\ PrecedenceRespected(t.r)
     /\ (t.l.k = "bin" /\ ~t.l.p) => Level(t.l.o) >= Level(t.o)
     /\ (t.r.k = "bin" /\ ~t.r.p) => Level(t.r.o) > Level(t.o)

-----------------------------------------------------------------------------
(* The machine.                                                             *)
VARIABLES toks, pos, opds, ops, done
pvars == <<toks, pos, opds, ops, done>>

PInit(ts) == /\ toks = ts /\ pos = 1 /\ opds = <<>> /\ ops = <<>> /\ done = FALSE

AtEnd == pos > Len(toks)
Next1 == toks[pos]
TopIsOp == ops # <<>> /\ Head(ops).k = "op"

ShiftOperand == /\ ~done /\ ~AtEnd /\ Next1.k = "opd"
                /\ opds' = <<Leaf(Next1.x)>> \o opds
                /\ pos' = pos + 1 /\ UNCHANGED <<toks, ops, done>>
ShiftOpen == /\ ~done /\ ~AtEnd /\ Next1.k = "lp"
             /\ ops' = <<LP>> \o ops
             /\ pos' = pos + 1 /\ UNCHANGED <<toks, opds, done>>
\* shift an operator only when the operator on the stack binds strictly looser
ShiftOperator == /\ ~done /\ ~AtEnd /\ Next1.k = "op"
                 /\ ~(TopIsOp /\ Level(Head(ops).o) >= Level(Next1.o))
                 /\ ops' = <<Next1>> \o ops
                 /\ pos' = pos + 1 /\ UNCHANGED <<toks, opds, done>>
\* reduce when the look-ahead is an operator that does not bind tighter, a ")" or the end
Reduce == /\ ~done /\ TopIsOp
          /\ \/ AtEnd
             \/ (~AtEnd /\ Next1.k = "rp")
             \/ (~AtEnd /\ Next1.k = "op" /\ Level(Head(ops).o) >= Level(Next1.o))
          /\ opds' = <<Bin(Head(ops).o, opds[2], opds[1])>> \o Tail(Tail(opds))
          /\ ops' = Tail(ops)
          /\ UNCHANGED <<toks, pos, done>>
CloseParen == /\ ~done /\ ~AtEnd /\ Next1.k = "rp" /\ ops # <<>> /\ Head(ops).k = "lp"
              /\ ops' = Tail(ops)
              /\ opds' = <<Paren(Head(opds))>> \o Tail(opds)
              /\ pos' = pos + 1 /\ UNCHANGED <<toks, done>>
Finish == /\ ~done /\ AtEnd /\ ops = <<>> /\ Len(opds) = 1
          /\ done' = TRUE /\ UNCHANGED <<toks, pos, opds, ops>>

PNext == ShiftOperand \/ ShiftOpen \/ ShiftOperator \/ Reduce \/ CloseParen \/ Finish
Result == Head(opds)

\* model-level properties of the machine (checked by MC_C08 on every enumerated case)
AgreesWithFunction == done => Result = ParseExpr(toks)
KeepsOperandOrder == done => Frontier(Result) = Operands(toks)
RespectsPrecedence == done => PrecedenceRespected(Result)
\* the operand stack never holds more than one tree per pending operator / parenthesis plus one
StackDiscipline == Len(opds) <= Cardinality({i \in 1..Len(ops) : ops[i].k = "op"}) + 1
=============================================================================
