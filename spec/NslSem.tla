------------------------------- MODULE NslSem -------------------------------
(***************************************************************************)
(* The NSL language as an abstract machine: the reference the compiled     *)
(* code is compared with (properties C01, C03, C04, C05, C11, C12, C15).   *)
(*                                                                         *)
(* A CEK-style machine: `ctl` is a stack of work items (statements,        *)
(* expressions, pending operations, loop / call markers), `vals` the value *)
(* stack, `frames` the activation stack (top = last element), `globals`    *)
(* the global variables.  One action per language rule, one small step at  *)
(* a time, so a run is a behaviour of the specification and properties of  *)
(* runs (frame isolation, stack discipline) are TLC-checkable.             *)
(*                                                                         *)
(* The machine is type-directed through NslTypes: every value carries its  *)
(* type tag, a binary operator is typed by NslTypes!ResolveBinary on the   *)
(* operand types, the operands are converted to the operand types it       *)
(* prescribes and the result is tagged with its result type; stores,       *)
(* parameter passing and return convert to the declared type.              *)
(*                                                                         *)
(* What the property statements leave open is NOT decided here: a run that *)
(* needs such a choice ends with status "ood" (out of the stated domain)   *)
(* and is not judged:  32-bit overflow, float -> int of a non-integral     *)
(* value, % with a negative operand or on floats, a float result that is   *)
(* not an exact dyadic rational, operand evaluation order when it matters, *)
(* the right operand of && / || having effects, a callee writing through   *)
(* an array/struct parameter, the truth value of a vector.                 *)
(*                                                                         *)
(* Program (data, from JSON or built by an enumeration module):            *)
(*  prog  [globals : Seq([n, t]), funcs : Seq([name, exported, params :    *)
(*         Seq([n, t]), ret : t, body : stmt])]                            *)
(*  type  [k |-> "int"|"uint"|"float"|"void"] | [k |-> "vec", c, n]        *)
(*        | [k |-> "mat", c, r, n] | [k |-> "arr", elem, dims]             *)
(*        | [k |-> "struct", name, fields : Seq([n, t])]                   *)
(*  stmt  block ss | decl n t init | expr e | if c t e | while c b         *)
(*        | do b c | for init c inc b | break | continue | ret e | empty   *)
(*  expr  lit | var n | bin op l r | asg lv e | casg op lv e | inc op pre n*)
(*        | idx a i | mem a f | swz a m | call f args | cons t args        *)
(*  absent parts are [k |-> "none"].                                       *)
(* The instantiating module supplies CaseOf(c) = [prog, entry, args,       *)
(* globals] for every case id c and the set CaseIds.                       *)
(***************************************************************************)
EXTENDS NslTypes, TLC

CONSTANTS CaseOf(_), CaseIds, Fuel

VARIABLES cid, ctl, vals, frames, globals, status, ret, steps, calls
svars == <<cid, ctl, vals, frames, globals, status, ret, steps, calls>>

-----------------------------------------------------------------------------
(* Values.  Scalars as in NslArith; [t |-> "vec", c |-> <<scalars>>];       *)
(* [t |-> "mat", c |-> <<rows, each <<scalars>>>>]; [t |-> "arr", c |->     *)
(* <<values>>]; [t |-> "struct", f |-> [field |-> value]]; [t |-> "void"].  *)
VOID == [t |-> "void"]
IsScalarV(v) == IsNum(v)
IsPrimV(v) == IsNum(v) \/ v.t \in {"vec", "mat"}
VecV(c) == [t |-> "vec", c |-> c]
MatV(rows) == [t |-> "mat", c |-> rows]

TypeOfVal(v) == CASE IsNum(v) -> Scalar(v.t)
                  [] v.t = "vec" -> Vec(v.c[1].t, Len(v.c))
                  [] v.t = "mat" -> Mat(v.c[1][1].t, Len(v.c), Len(v.c[1]))

IsPrimT(t) == t.k \in {"int", "uint", "float", "vec", "mat"}
PT(t) == CASE t.k \in {"int", "uint", "float"} -> Scalar(t.k)
           [] t.k = "vec" -> Vec(t.c, t.n)
           [] t.k = "mat" -> Mat(t.c, t.r, t.n)

SeqBad(s) == \E i \in 1..Len(s) : IsBad(s[i])
FirstBad(s) == s[CHOOSE i \in 1..Len(s) : IsBad(s[i]) /\ \A j \in 1..(i - 1) : ~IsBad(s[j])]
VecOf(s) == IF SeqBad(s) THEN FirstBad(s) ELSE VecV(s)
MatOf(rows) == LET bad == {i \in 1..Len(rows) : SeqBad(rows[i])} IN
               IF bad = {} THEN MatV(rows) ELSE FirstBad(rows[CHOOSE i \in bad : \A j \in bad : i <= j])

\* convert a primitive value to a primitive type of the same shape (NslTypes record)
ConvP(ty, v) ==
  IF IsBad(v) THEN v
  ELSE IF ~IsPrimV(v) THEN ILL
  ELSE IF ~SameShape(TypeOfVal(v), ty) THEN ILL
  ELSE CASE IsS(ty) -> ConvK(ty.c, v)
         [] IsV(ty) -> VecOf([i \in 1..ty.r |-> ConvK(ty.c, v.c[i])])
         [] IsM(ty) -> MatOf([i \in 1..ty.r |-> [j \in 1..ty.n |-> ConvK(ty.c, v.c[i][j])]])
\* the same for a store / return (ConvA: a fraction stored into an integer is fixed by no property)
ConvPA(ty, v) ==
  IF IsBad(v) THEN v
  ELSE IF ~IsPrimV(v) THEN ILL
  ELSE IF ~SameShape(TypeOfVal(v), ty) THEN ILL
  ELSE CASE IsS(ty) -> ConvA(ty.c, v)
         [] IsV(ty) -> VecOf([i \in 1..ty.r |-> ConvA(ty.c, v.c[i])])
         [] IsM(ty) -> MatOf([i \in 1..ty.r |-> [j \in 1..ty.n |-> ConvA(ty.c, v.c[i][j])]])
\* convert v for a store into a slot that currently holds `old` (the slot's type is the type of its value)
ConvLike(old, v) == IF IsBad(v) THEN v
                    ELSE IF IsPrimV(old) THEN ConvPA(TypeOfVal(old), v)
                    ELSE IF old.t = v.t THEN v ELSE ILL
\* convert v to a declared type (parameters, return values, declarations)
ConvT(t, v) == IF IsBad(v) THEN v
               ELSE IF IsPrimT(t) THEN ConvP(PT(t), v)
               ELSE IF t.k = "void" THEN (IF v.t = "void" THEN v ELSE ILL)
               ELSE IF (t.k = "arr" /\ v.t = "arr") \/ (t.k = "struct" /\ v.t = "struct") THEN v ELSE ILL

ConvTA(t, v) == IF IsBad(v) THEN v ELSE IF IsPrimT(t) THEN ConvPA(PT(t), v) ELSE ConvT(t, v)

ZeroK(c) == IF c = "float" THEN [t |-> "float", n |-> 0, e |-> 0] ELSE [t |-> c, v |-> 0]
RECURSIVE Zero(_), ZeroArr(_, _)
Zero(t) == CASE t.k \in {"int", "uint", "float"} -> ZeroK(t.k)
             [] t.k = "vec" -> VecV([i \in 1..t.n |-> ZeroK(t.c)])
             [] t.k = "mat" -> MatV([i \in 1..t.r |-> [j \in 1..t.n |-> ZeroK(t.c)]])
             [] t.k = "arr" -> ZeroArr(t.elem, t.dims)
             [] t.k = "struct" -> [t |-> "struct",
                                   f |-> [name \in {t.fields[i].n : i \in 1..Len(t.fields)} |->
                                            Zero(t.fields[CHOOSE i \in 1..Len(t.fields) : t.fields[i].n = name].t)]]
\* T[d1][d2]..  is d1 arrays of (d2 arrays of ... T): the k-th index selects extent d_k
ZeroArr(elem, dims) == [t |-> "arr", c |-> [i \in 1..dims[1] |-> IF Len(dims) = 1 THEN Zero(elem) ELSE ZeroArr(elem, Tail(dims))]]

-----------------------------------------------------------------------------
(* Binary operators on primitive values, typed by NslTypes!ResolveBinary.    *)
RECURSIVE DotFrom(_, _, _, _, _, _)
\* sum over l of x[l] * y[l] at component kind k, starting at index l with accumulator acc
DotFrom(xs, ys, l, k, acc, dummy) ==
  IF l > Len(xs) \/ IsBad(acc) THEN acc
  ELSE LET p == ScalarOp("*", k, k, xs[l], ys[l]) IN
       IF IsBad(p) THEN p ELSE DotFrom(xs, ys, l + 1, k, ScalarOp("+", k, k, acc, p), dummy)
Dot(xs, ys, k) == DotFrom(xs, ys, 1, k, ZeroK(k), 0)
Col(rows, j) == [i \in 1..Len(rows) |-> rows[i][j]]

ApplyBin(op, a, b) ==
  IF IsBad(a) THEN a ELSE IF IsBad(b) THEN b
  ELSE IF ~IsPrimV(a) \/ ~IsPrimV(b) THEN ILL ELSE
  LET ta == TypeOfVal(a)  tb == TypeOfVal(b)  ty == ResolveBinary(op, ta, tb) IN
  IF ~ty.ok THEN ILL ELSE
  LET x == ConvP(ty.l, a)  y == ConvP(ty.r, b)
      ok == ty.l.c  rk == ty.res.c
      S(p, q) == ScalarOp(op, ok, rk, p, q) IN
  IF IsBad(x) THEN x ELSE IF IsBad(y) THEN y ELSE
  CASE IsS(ta) /\ IsS(tb) -> S(x, y)
    [] IsV(ta) /\ IsV(tb) -> VecOf([i \in 1..ta.r |-> S(x.c[i], y.c[i])])
    [] IsM(ta) /\ IsM(tb) /\ op # "*" -> MatOf([i \in 1..ta.r |-> [j \in 1..ta.n |-> S(x.c[i][j], y.c[i][j])]])
    [] IsV(ta) /\ IsS(tb) -> VecOf([i \in 1..ta.r |-> S(x.c[i], y)])                    \* v * s, v / s
    [] IsM(ta) /\ IsS(tb) -> MatOf([i \in 1..ta.r |-> [j \in 1..ta.n |-> S(x.c[i][j], y)]])  \* m * s, m / s
    [] IsS(ta) /\ IsV(tb) -> VecOf([i \in 1..tb.r |-> S(x, y.c[i])])                    \* s * v
    [] IsS(ta) /\ IsM(tb) -> MatOf([i \in 1..tb.r |-> [j \in 1..tb.n |-> S(x, y.c[i][j])]])  \* s * m
    [] IsM(ta) /\ IsM(tb) /\ op = "*" ->
         IF tb.n = 1 THEN VecOf([i \in 1..ta.r |-> Dot(x.c[i], Col(y.c, 1), rk)])
         ELSE MatOf([i \in 1..ta.r |-> [j \in 1..tb.n |-> Dot(x.c[i], Col(y.c, j), rk)]])
    [] IsM(ta) /\ IsV(tb) -> VecOf([i \in 1..ta.r |-> Dot(x.c[i], y.c, rk)])            \* m * v
    [] OTHER -> ILL

\* T(args): a vector from scalars and smaller vectors, a matrix from its row vectors
Flatten(args) == LET RECURSIVE F(_)
                     F(i) == IF i > Len(args) THEN <<>>
                             ELSE (IF args[i].t = "vec" THEN args[i].c ELSE <<args[i]>>) \o F(i + 1)
                 IN F(1)
Construct(t, args) ==
  IF SeqBad(args) THEN FirstBad(args)
  ELSE IF t.k \in {"int", "uint", "float"} THEN
       (IF Len(args) = 1 /\ IsNum(args[1]) THEN ConvK(t.k, args[1]) ELSE ILL)
  ELSE IF t.k = "vec" THEN
       IF \E i \in 1..Len(args) : ~(IsNum(args[i]) \/ args[i].t = "vec") THEN ILL
       ELSE LET cs == Flatten(args) IN
            IF Len(cs) # t.n THEN ILL ELSE VecOf([i \in 1..t.n |-> ConvK(t.c, cs[i])])
  ELSE IF t.k = "mat" THEN
       IF Len(args) # t.r \/ \E i \in 1..Len(args) : ~(args[i].t = "vec" /\ Len(args[i].c) = t.n) THEN ILL
       ELSE MatOf([i \in 1..t.r |-> [j \in 1..t.n |-> ConvK(t.c, args[i].c[j])]])
  ELSE ILL

\* read access
IndexInto(a, i) ==
  IF IsBad(a) THEN a ELSE IF IsBad(i) THEN i
  ELSE IF ~IsI(i) THEN ILL
  ELSE IF a.t \notin {"arr", "vec", "mat"} THEN ILL
  ELSE IF i.v < 0 \/ i.v >= Len(a.c) THEN OOB
  ELSE IF a.t = "mat" THEN VecV(a.c[i.v + 1]) ELSE a.c[i.v + 1]
Swizzle(a, m) ==
  IF IsBad(a) THEN a
  ELSE IF a.t # "vec" THEN ILL
  ELSE IF \E j \in 1..Len(m) : m[j] >= Len(a.c) THEN ILL
  ELSE IF Len(m) = 1 THEN a.c[m[1] + 1] ELSE VecV([j \in 1..Len(m) |-> a.c[m[j] + 1]])

\* write access: the value `cur` with the part selected by `path` replaced by v.
\* path: sequence of [k |-> "idx"] (index taken from idxs in order) | [k |-> "mem", f] | [k |-> "swz", m]
RECURSIVE Upd(_, _, _, _)
Upd(cur, path, idxs, v) ==
  IF IsBad(v) THEN v
  ELSE IF path = <<>> THEN ConvLike(cur, v)
  ELSE LET st == Head(path) IN
  CASE st.k = "idx" ->
         LET i == Head(idxs) IN
         IF IsBad(i) THEN i ELSE IF ~IsI(i) THEN ILL
         ELSE IF cur.t \notin {"arr", "vec", "mat"} THEN ILL
         ELSE IF i.v < 0 \/ i.v >= Len(cur.c) THEN OOB
         ELSE IF cur.t = "mat" THEN
              LET r == Upd(VecV(cur.c[i.v + 1]), Tail(path), Tail(idxs), v) IN
              IF IsBad(r) THEN r ELSE [cur EXCEPT !.c[i.v + 1] = r.c]
         ELSE LET r == Upd(cur.c[i.v + 1], Tail(path), Tail(idxs), v) IN
              IF IsBad(r) THEN r ELSE [cur EXCEPT !.c[i.v + 1] = r]
    [] st.k = "mem" ->
         IF cur.t # "struct" THEN ILL
         ELSE IF st.f \notin DOMAIN cur.f THEN ILL
         ELSE LET r == Upd(cur.f[st.f], Tail(path), idxs, v) IN
              IF IsBad(r) THEN r ELSE [cur EXCEPT !.f[st.f] = r]
    [] st.k = "swz" ->
         LET m == st.m IN
         IF cur.t # "vec" THEN ILL
         ELSE IF \E j \in 1..Len(m) : m[j] >= Len(cur.c) THEN ILL
         ELSE IF Tail(path) # <<>> THEN
              \* a selection on a swizzle selects among the swizzled components: v.zyx.xy designates v.zy, v.zyx[0] designates v.z
              (LET nx == Head(Tail(path)) IN
               IF nx.k = "swz" THEN
                    (IF \E j \in 1..Len(nx.m) : nx.m[j] >= Len(m) THEN ILL
                     ELSE Upd(cur, <<[k |-> "swz", m |-> [j \in 1..Len(nx.m) |-> m[nx.m[j] + 1]]]>> \o Tail(Tail(path)), idxs, v))
               ELSE IF nx.k = "idx" THEN
                    (LET i == Head(idxs) IN
                     IF IsBad(i) THEN i ELSE IF ~IsI(i) THEN ILL ELSE IF i.v < 0 \/ i.v >= Len(m) THEN OOB
                     ELSE Upd(cur, <<[k |-> "swz", m |-> <<m[i.v + 1]>>]>> \o Tail(Tail(path)), Tail(idxs), v))
               ELSE ILL)
         ELSE IF \E j, l \in 1..Len(m) : j # l /\ m[j] = m[l] THEN ILL          \* a repeated component in a write mask
         ELSE IF Len(m) = 1 THEN
              (IF ~IsNum(v) THEN ILL ELSE
               LET c == ConvA(cur.c[1].t, v) IN IF IsBad(c) THEN c ELSE [cur EXCEPT !.c[m[1] + 1] = c])
         ELSE IF v.t # "vec" \/ Len(v.c) # Len(m) THEN ILL
         ELSE VecOf([i \in 1..Len(cur.c) |->
                       IF \E j \in 1..Len(m) : m[j] = i - 1
                       THEN ConvA(cur.c[1].t, v.c[CHOOSE j \in 1..Len(m) : m[j] = i - 1])
                       ELSE cur.c[i]])

-----------------------------------------------------------------------------
(* Program access                                                           *)
Case == CaseOf(cid)
Prog == Case.prog
Funcs == Prog.funcs
GlobalNames == {Prog.globals[i].n : i \in 1..Len(Prog.globals)}
It(k) == [k |-> k]
Top == frames[Len(frames)]
IsLocal(n) == n \in DOMAIN Top.vars
Lookup(n) == IF IsLocal(n) THEN Top.vars[n] ELSE globals[n]
Known(n) == IsLocal(n) \/ n \in DOMAIN globals

\* root variable and access path of an lvalue expression (root outward)
RECURSIVE LvRoot(_), LvPath(_), LvIdxExprs(_)
LvRoot(lv) == IF lv.k = "var" THEN lv.n ELSE LvRoot(lv.a)
LvPath(lv) == CASE lv.k = "var" -> <<>>
                [] lv.k = "idx" -> LvPath(lv.a) \o <<[k |-> "idx"]>>
                [] lv.k = "mem" -> LvPath(lv.a) \o <<[k |-> "mem", f |-> lv.f]>>
                [] lv.k = "swz" -> LvPath(lv.a) \o <<[k |-> "swz", m |-> lv.m]>>
LvIdxExprs(lv) == CASE lv.k = "var" -> <<>>
                    [] lv.k = "idx" -> LvIdxExprs(lv.a) \o <<lv.i>>
                    [] OTHER -> LvIdxExprs(lv.a)
IsLv(e) == e.k \in {"var", "idx", "mem", "swz"}

(* Effects of expressions, to recognise order-sensitive evaluation (left open by the
   property statements).  Calls may read every global and write every global that is
   assigned anywhere in the program. *)
RECURSIVE ExprWrites(_), ExprReads(_)
WrittenGlobals ==
  LET RECURSIVE EW(_), SW(_)
      EW(e) == CASE e.k \in {"asg", "casg"} -> ({LvRoot(e.lv)} \cap GlobalNames) \cup EW(e.e) \cup UNION {EW(x) : x \in {LvIdxExprs(e.lv)[i] : i \in 1..Len(LvIdxExprs(e.lv))}}
                 [] e.k = "inc" -> {e.n} \cap GlobalNames
                 [] e.k = "bin" -> EW(e.l) \cup EW(e.r)
                 [] e.k = "idx" -> EW(e.a) \cup EW(e.i)
                 [] e.k \in {"mem", "swz"} -> EW(e.a)
                 [] e.k \in {"call", "cons"} -> UNION {EW(e.args[i]) : i \in 1..Len(e.args)}
                 [] OTHER -> {}
      SW(s) == CASE s.k = "block" -> UNION {SW(s.ss[i]) : i \in 1..Len(s.ss)}
                 [] s.k = "decl" -> IF s.init.k = "none" THEN {} ELSE EW(s.init)
                 [] s.k = "expr" -> EW(s.e)
                 [] s.k = "if" -> EW(s.c) \cup SW(s.t) \cup (IF s.e.k = "none" THEN {} ELSE SW(s.e))
                 [] s.k \in {"while", "do"} -> EW(s.c) \cup SW(s.b)
                 [] s.k = "for" -> (IF s.init.k = "none" THEN {} ELSE SW(s.init)) \cup (IF s.c.k = "none" THEN {} ELSE EW(s.c))
                                   \cup (IF s.inc.k = "none" THEN {} ELSE EW(s.inc)) \cup SW(s.b)
                 [] s.k = "ret" -> IF s.e.k = "none" THEN {} ELSE EW(s.e)
                 [] OTHER -> {}
  IN UNION {SW(Funcs[i].body) : i \in 1..Len(Funcs)}
ExprWrites(e) ==
  CASE e.k \in {"asg", "casg"} -> {LvRoot(e.lv)} \cup ExprWrites(e.e) \cup UNION {ExprWrites(LvIdxExprs(e.lv)[i]) : i \in 1..Len(LvIdxExprs(e.lv))}
    [] e.k = "inc" -> {e.n}
    [] e.k = "bin" -> ExprWrites(e.l) \cup ExprWrites(e.r)
    [] e.k = "idx" -> ExprWrites(e.a) \cup ExprWrites(e.i)
    [] e.k \in {"mem", "swz"} -> ExprWrites(e.a)
    [] e.k = "call" -> WrittenGlobals \cup UNION {ExprWrites(e.args[i]) : i \in 1..Len(e.args)}
    [] e.k = "cons" -> UNION {ExprWrites(e.args[i]) : i \in 1..Len(e.args)}
    [] OTHER -> {}
ExprReads(e) ==
  CASE e.k = "var" -> {e.n}
    [] e.k = "asg" -> ExprReads(e.e) \cup UNION {ExprReads(LvIdxExprs(e.lv)[i]) : i \in 1..Len(LvIdxExprs(e.lv))}
    [] e.k = "casg" -> {LvRoot(e.lv)} \cup ExprReads(e.e) \cup UNION {ExprReads(LvIdxExprs(e.lv)[i]) : i \in 1..Len(LvIdxExprs(e.lv))}
    [] e.k = "inc" -> {e.n}
    [] e.k = "bin" -> ExprReads(e.l) \cup ExprReads(e.r)
    [] e.k = "idx" -> ExprReads(e.a) \cup ExprReads(e.i)
    [] e.k \in {"mem", "swz"} -> ExprReads(e.a)
    [] e.k = "call" -> GlobalNames \cup UNION {ExprReads(e.args[i]) : i \in 1..Len(e.args)}
    [] e.k = "cons" -> UNION {ExprReads(e.args[i]) : i \in 1..Len(e.args)}
    [] OTHER -> {}
\* the expressions of the sequence can be evaluated in any order with the same result
Independent(es) == \A i, j \in 1..Len(es) : i # j => ExprWrites(es[i]) \cap (ExprReads(es[j]) \cup ExprWrites(es[j])) = {}

-----------------------------------------------------------------------------
(* The step relation                                                        *)
RECURSIVE DropTo(_, _)
DropTo(s, mark) == IF s = <<>> THEN <<>> ELSE IF Head(s).k = mark THEN Tail(s) ELSE DropTo(Tail(s), mark)
\* a break / continue must not cross a call boundary
RECURSIVE HasBefore(_, _, _)
HasBefore(s, mark, stop) == IF s = <<>> THEN FALSE ELSE IF Head(s).k = mark THEN TRUE
                            ELSE IF Head(s).k = stop THEN FALSE ELSE HasBefore(Tail(s), mark, stop)
Push(s, x) == <<x>> \o s
E(e) == [k |-> "expr", e |-> e]
S(s) == [k |-> "stmt", s |-> s]
Es(es) == [i \in 1..Len(es) |-> E(es[i])]

Fail(st) == /\ status' = st /\ UNCHANGED <<ctl, vals, frames, globals, ret, calls>>
FailBad(b) == Fail(b.t)           \* a bad value's tag is the status it causes
Keep(ctl2, vals2) == /\ ctl' = ctl2 /\ vals' = vals2 /\ UNCHANGED <<frames, globals, status, ret, calls>>
SetVar(n, v, ctl2, vals2) ==
  /\ IF IsLocal(n) THEN frames' = [frames EXCEPT ![Len(frames)].vars[n] = v] /\ UNCHANGED globals
                   ELSE globals' = [globals EXCEPT ![n] = v] /\ UNCHANGED frames
  /\ ctl' = ctl2 /\ vals' = vals2 /\ UNCHANGED <<status, ret, calls>>

StepStmt(s, rest) ==
  CASE s.k = "block" -> Keep([i \in 1..Len(s.ss) |-> S(s.ss[i])] \o rest, vals)
    [] s.k = "empty" -> Keep(rest, vals)
    [] s.k = "decl" ->                       \* zero-initialised each time the declaration executes
         /\ frames' = [frames EXCEPT ![Len(frames)].vars = (s.n :> Zero(s.t)) @@ @]
         /\ ctl' = (IF s.init.k = "none" THEN rest
                    ELSE <<E(s.init), [k |-> "store", n |-> s.n, path |-> <<>>, nidx |-> 0], It("drop")>> \o rest)
         /\ UNCHANGED <<vals, globals, status, ret, calls>>
    [] s.k = "expr" -> Keep(<<E(s.e), It("drop")>> \o rest, vals)
    [] s.k = "if" -> Keep(<<E(s.c), [k |-> "iftest", s |-> s]>> \o rest, vals)
    [] s.k = "while" -> Keep(<<E(s.c), [k |-> "looptest", s |-> s], It("brkmark")>> \o rest, vals)
    [] s.k = "do" -> Keep(<<S(s.b), It("contmark"), E(s.c), [k |-> "looptest", s |-> s], It("brkmark")>> \o rest, vals)
    [] s.k = "for" -> Keep((IF s.init.k = "none" THEN <<>> ELSE <<S(s.init)>>)
                           \o <<[k |-> "fortest", s |-> s], It("brkmark")>> \o rest, vals)
    [] s.k = "break" -> IF HasBefore(rest, "brkmark", "callmark") THEN Keep(DropTo(rest, "brkmark"), vals) ELSE Fail("ill")
    [] s.k = "continue" -> IF HasBefore(rest, "contmark", "callmark") THEN Keep(DropTo(rest, "contmark"), vals) ELSE Fail("ill")
    [] s.k = "ret" -> IF s.e.k = "none" THEN Keep(<<It("doretvoid")>> \o rest, vals)
                      ELSE Keep(<<E(s.e), It("doret")>> \o rest, vals)

StepExpr(e, rest) ==
  CASE e.k = "lit" -> Keep(rest, Push(vals, IF e.t = "float" THEN Norm(e.n, e.e) ELSE [t |-> e.t, v |-> e.v]))
    [] e.k = "var" -> IF Known(e.n) THEN Keep(rest, Push(vals, Lookup(e.n))) ELSE Fail("ill")
    [] e.k = "bin" ->
         IF ~Independent(<<e.l, e.r>>) THEN Fail("ood")
         ELSE IF e.op \in LogOps /\ ExprWrites(e.r) # {} THEN Fail("ood")     \* short-circuiting would be observable
         ELSE Keep(<<E(e.l), E(e.r), [k |-> "binop", op |-> e.op]>> \o rest, vals)
    [] e.k = "asg" ->
         IF ~IsLv(e.lv) THEN Fail("ill")
         ELSE IF ~Independent(<<e.e>> \o LvIdxExprs(e.lv)) THEN Fail("ood")
         ELSE IF LvRoot(e.lv) \in ExprWrites(e.e) THEN Fail("ood")
         ELSE Keep(<<E(e.e)>> \o Es(LvIdxExprs(e.lv))
                   \o <<[k |-> "store", n |-> LvRoot(e.lv), path |-> LvPath(e.lv), nidx |-> Len(LvIdxExprs(e.lv))]>> \o rest, vals)
    [] e.k = "casg" ->                       \* a op= b  is  a = a op b
         IF \E i \in 1..Len(LvIdxExprs(e.lv)) : ExprWrites(LvIdxExprs(e.lv)[i]) # {} THEN Fail("ood")
         ELSE Keep(<<E([k |-> "asg", lv |-> e.lv, e |-> [k |-> "bin", op |-> e.op, l |-> e.lv, r |-> e.e]])>> \o rest, vals)
    [] e.k = "inc" -> Keep(<<[k |-> "incvar", n |-> e.n, op |-> e.op, pre |-> e.pre]>> \o rest, vals)
    [] e.k = "idx" -> IF ~Independent(<<e.a, e.i>>) THEN Fail("ood")
                      ELSE Keep(<<E(e.a), E(e.i), It("index")>> \o rest, vals)
    [] e.k = "mem" -> Keep(<<E(e.a), [k |-> "member", f |-> e.f]>> \o rest, vals)
    [] e.k = "swz" -> Keep(<<E(e.a), [k |-> "swizzle", m |-> e.m]>> \o rest, vals)
    [] e.k = "call" -> IF ~Independent(e.args) THEN Fail("ood")
                       ELSE Keep(Es(e.args) \o <<[k |-> "docall", f |-> e.f, n |-> Len(e.args)]>> \o rest, vals)
    [] e.k = "cons" -> IF ~Independent(e.args) THEN Fail("ood")
                       ELSE Keep(Es(e.args) \o <<[k |-> "construct", t |-> e.t, n |-> Len(e.args)]>> \o rest, vals)

\* the n topmost values, oldest first
TopN(n) == [i \in 1..n |-> vals[n + 1 - i]]
Below(n) == SubSeq(vals, n + 1, Len(vals))

\* candidates for a call f(args): indices of the functions of that name; resolution by NslTypes!Best
Cands(f) == {i \in 1..Len(Funcs) : Funcs[i].name = f}
ParamTypes(i) == [j \in 1..Len(Funcs[i].params) |-> Funcs[i].params[j].t]
Resolve(f, argv) ==
  LET cs == Cands(f) IN
  IF cs = {} THEN [kind |-> "unknown", which |-> 0]
  ELSE IF \A j \in 1..Len(argv) : IsPrimV(argv[j]) THEN
       \* overloads whose parameters are all primitive take part in the ranking
       LET prim == {i \in cs : \A j \in 1..Len(Funcs[i].params) : IsPrimT(Funcs[i].params[j].t)}
           order == CHOOSE sq \in [1..Cardinality(prim) -> prim] :
                       \A a, b \in 1..Cardinality(prim) : a < b => sq[a] < sq[b]
           b == Best([a \in 1..Cardinality(prim) |-> [j \in 1..Len(Funcs[order[a]].params) |-> PT(Funcs[order[a]].params[j].t)]],
                     [j \in 1..Len(argv) |-> TypeOfVal(argv[j])])
       IN IF b.kind = "chosen" THEN [kind |-> "chosen", which |-> order[b.which]] ELSE b
  ELSE \* an aggregate argument: the name must not be overloaded and the arity must match
       IF Cardinality(cs) = 1 /\ Len(Funcs[CHOOSE i \in cs : TRUE].params) = Len(argv)
       THEN [kind |-> "chosen", which |-> CHOOSE i \in cs : TRUE]
       ELSE [kind |-> "ood", which |-> 0]

IsAggParam(n) == LET f == Funcs[Top.fn] IN
                 \E j \in 1..Len(f.params) : f.params[j].n = n /\ ~IsPrimT(f.params[j].t)

Step ==
  /\ status = "run"
  /\ steps' = steps + 1
  /\ UNCHANGED cid
  /\ IF steps >= Fuel THEN Fail("fuel") ELSE
     IF ctl = <<>> THEN
        \* the entry function ran off its end: a void function returns nothing
        (IF Funcs[Top.fn].ret.k = "void"
         THEN /\ status' = "done" /\ ret' = VOID /\ UNCHANGED <<ctl, vals, frames, globals, calls>>
         ELSE Fail("noreturn"))
     ELSE
     LET it == Head(ctl) rest == Tail(ctl) IN
     CASE it.k = "stmt" -> StepStmt(it.s, rest)
       [] it.k = "expr" -> StepExpr(it.e, rest)
       [] it.k \in {"brkmark", "contmark"} -> Keep(rest, vals)
       [] it.k = "drop" -> Keep(rest, Tail(vals))
       [] it.k = "binop" ->
            LET r == ApplyBin(it.op, vals[2], vals[1]) IN
            IF IsBad(r) THEN FailBad(r) ELSE Keep(rest, Push(Below(2), r))
       [] it.k = "store" ->      \* vals = <<last index, ..., first index, value, ...>>
            IF ~Known(it.n) THEN Fail("ill")
            ELSE IF it.path # <<>> /\ IsLocal(it.n) /\ IsAggParam(it.n) THEN Fail("ood")   \* write through an aggregate parameter
            ELSE LET idxs == TopN(it.nidx)
                     v == vals[it.nidx + 1]
                     new == Upd(Lookup(it.n), it.path, idxs, v) IN
                 IF IsBad(new) THEN FailBad(new)
                 ELSE SetVar(it.n, new, rest, Push(Below(it.nidx + 1), v))
       [] it.k = "incvar" ->
            IF ~Known(it.n) THEN Fail("ill") ELSE
            LET old == Lookup(it.n) IN
            IF ~IsNum(old) THEN Fail("ill") ELSE
            LET new == ScalarOp(it.op, old.t, old.t, old, IntV(1)) IN
            IF IsBad(new) THEN FailBad(new)
            ELSE SetVar(it.n, new, rest, Push(vals, IF it.pre THEN new ELSE old))
       [] it.k = "index" ->      \* vals = <<index, container, ...>>
            LET r == IndexInto(vals[2], vals[1]) IN
            IF IsBad(r) THEN FailBad(r) ELSE Keep(rest, Push(Below(2), r))
       [] it.k = "member" ->
            LET a == vals[1] IN
            IF a.t # "struct" THEN Fail("ill")
            ELSE IF it.f \notin DOMAIN a.f THEN Fail("ill")
            ELSE Keep(rest, Push(Tail(vals), a.f[it.f]))
       [] it.k = "swizzle" ->
            LET r == Swizzle(vals[1], it.m) IN
            IF IsBad(r) THEN FailBad(r) ELSE Keep(rest, Push(Tail(vals), r))
       [] it.k = "construct" ->
            LET r == Construct(it.t, TopN(it.n)) IN
            IF IsBad(r) THEN FailBad(r) ELSE Keep(rest, Push(Below(it.n), r))
       [] it.k = "iftest" ->
            IF ~IsNum(vals[1]) THEN Fail("ood") ELSE
            Keep((IF Truth(vals[1]) THEN <<S(it.s.t)>>
                  ELSE IF it.s.e.k = "none" THEN <<>> ELSE <<S(it.s.e)>>) \o rest, Tail(vals))
       [] it.k = "looptest" ->   \* while / do: the condition value is on the stack
            IF ~IsNum(vals[1]) THEN Fail("ood") ELSE
            Keep((IF Truth(vals[1]) THEN <<S(it.s.b), It("contmark"), E(it.s.c), it>> ELSE <<>>) \o rest, Tail(vals))
       [] it.k = "fortest" ->    \* evaluate the condition (absent = true), then forbody
            IF it.s.c.k = "none" THEN Keep(<<[k |-> "forbody", s |-> it.s]>> \o rest, Push(vals, IntV(1)))
            ELSE Keep(<<E(it.s.c), [k |-> "forbody", s |-> it.s]>> \o rest, vals)
       [] it.k = "forbody" ->    \* continue lands on contmark: the increment still runs
            IF ~IsNum(vals[1]) THEN Fail("ood") ELSE
            Keep((IF Truth(vals[1]) THEN
                    <<S(it.s.b), It("contmark")>>
                    \o (IF it.s.inc.k = "none" THEN <<>> ELSE <<E(it.s.inc), It("drop")>>)
                    \o <<[k |-> "fortest", s |-> it.s]>>
                  ELSE <<>>) \o rest, Tail(vals))
       [] it.k = "docall" ->
            LET argv == TopN(it.n)
                r == Resolve(it.f, argv) IN
            IF r.kind = "ood" THEN Fail("ood")
            ELSE IF r.kind # "chosen" THEN Fail("ill")
            ELSE LET f == Funcs[r.which]
                     bound == [j \in 1..it.n |-> ConvT(f.params[j].t, argv[j])]
                     fr == [fn |-> r.which,
                            vars |-> [p \in {f.params[j].n : j \in 1..it.n} |-> bound[CHOOSE j \in 1..it.n : f.params[j].n = p]]] IN
                 IF SeqBad(bound) THEN FailBad(FirstBad(bound)) ELSE
                 /\ frames' = Append(frames, fr)
                 /\ vals' = Below(it.n)
                 /\ ctl' = <<S(f.body), It("callmark")>> \o rest
                 /\ calls' = Append(calls, [f |-> r.which, args |-> bound])
                 /\ UNCHANGED <<globals, status, ret>>
       [] it.k = "callmark" ->   \* the callee ran off its end
            IF Funcs[Top.fn].ret.k = "void"
            THEN /\ frames' = SubSeq(frames, 1, Len(frames) - 1) /\ ctl' = rest /\ vals' = Push(vals, VOID)
                 /\ UNCHANGED <<globals, status, ret, calls>>
            ELSE Fail("noreturn")
       [] it.k \in {"doret", "doretvoid"} ->
            LET v == IF it.k = "doret" THEN ConvTA(Funcs[Top.fn].ret, vals[1]) ELSE VOID
                vrest == IF it.k = "doret" THEN Tail(vals) ELSE vals IN
            IF it.k = "doretvoid" /\ Funcs[Top.fn].ret.k # "void" THEN Fail("noreturn")
            ELSE IF IsBad(v) THEN FailBad(v)
            ELSE IF Len(frames) = 1 THEN
                 /\ ret' = v /\ status' = "done" /\ ctl' = <<>> /\ vals' = <<>> /\ UNCHANGED <<frames, globals, calls>>
            ELSE /\ frames' = SubSeq(frames, 1, Len(frames) - 1)
                 /\ ctl' = DropTo(rest, "callmark")
                 /\ vals' = Push(vrest, v)
                 /\ UNCHANGED <<globals, status, ret, calls>>

EntryIndex(c) == CHOOSE i \in 1..Len(c.prog.funcs) : c.prog.funcs[i].name = c.entry /\ c.prog.funcs[i].exported
\* the activation stack and control stack at the start of an invocation of case c
InitFrames(c) == LET fi == EntryIndex(c)  f == c.prog.funcs[fi] IN
                 <<[fn |-> fi, vars |-> [p \in {f.params[j].n : j \in 1..Len(f.params)} |->
                                           ConvT(f.params[CHOOSE j \in 1..Len(f.params) : f.params[j].n = p].t, c.args[p])]]>>
InitCtl(c) == <<S(c.prog.funcs[EntryIndex(c)].body)>>
SInit ==
  /\ cid \in CaseIds
  /\ LET c == CaseOf(cid) IN
     /\ frames = InitFrames(c)
     /\ ctl = InitCtl(c)
     /\ globals = c.globals
  /\ vals = <<>> /\ status = "run" /\ ret = VOID /\ steps = 0 /\ calls = <<>>
SNext == Step
SSpec == SInit /\ [][SNext]_svars

-----------------------------------------------------------------------------
(* Properties of the reference machine itself (checked by TLC on every run). *)
\* a step never changes a frame below the top one: whatever a callee does is invisible to its callers
FrameIsolation == [][\A i \in 1..(Len(frames) - 1) : i <= Len(frames') => frames'[i] = frames[i]]_svars
\* the activation stack grows and shrinks by at most one frame per step
CallDiscipline == [][Len(frames') \in {Len(frames) - 1, Len(frames), Len(frames) + 1}]_svars
\* a finished run has consumed its control and value stacks; a frame is always present
Finished == status = "done" => ctl = <<>> /\ vals = <<>> /\ Len(frames) = 1
FrameExists == Len(frames) >= 1
\* globals keep their names
GlobalsStable == DOMAIN globals = DOMAIN CaseOf(cid).globals
=============================================================================
