------------------------------- MODULE MC_C09 -------------------------------
(***************************************************************************)
(* C09: the whole rule table of NslTypes!ResolveBinary, one TLC state per  *)
(* (operator, left type) row; each row carries the prescribed outcome for  *)
(* all 63 right types.  TLC checks the laws of the table on every row; the *)
(* driver (harness/c09.py) calls the real typing interface on all 51 597   *)
(* triples and compiles the 2 548 spellable programs, and compares.        *)
(***************************************************************************)
EXTENDS NslTypes, TLC, Json

VARIABLE row
vars == <<row>>

Init == row \in BinOps \X Universe
Next == UNCHANGED row
Spec == Init /\ [][Next]_vars

Op == row[1]
L == row[2]
TN(t) == TypeName(t)
Cell(R) == LET x == ResolveBinary(Op, L, R) IN
           [R |-> TN(R), spell |-> (L \in Spellable /\ R \in Spellable), judged |-> Judged(Op, L, R),
            operands |-> OperandsJudged(Op), ok |-> x.ok,
            res |-> IF x.ok THEN TN(x.res) ELSE "-",
            lt |-> IF x.ok THEN TN(x.l) ELSE "-",
            rt |-> IF x.ok THEN TN(x.r) ELSE "-"]
Cells == {Cell(R) : R \in Universe}

Laws == /\ \A R \in Universe : ResultLaw(Op, L, R) /\ SymmetryLaw(Op, L, R) /\ Closed(Op, L, R)
        /\ (Op = "*" => \A B \in Universe, C \in Universe : AssocLaw(L, B, C))
Report == PrintT(ToJson([op |-> Op, L |-> TN(L), cells |-> Cells]))
=============================================================================
