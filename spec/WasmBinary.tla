------------------------------ MODULE WasmBinary ------------------------------
(***************************************************************************)
(* A decoder, validator and interpreter for the WebAssembly 1.0 binaries   *)
(* the NSL backend can emit (properties C06, C07, C19).                    *)
(*                                                                         *)
(* The machine reads the byte sequence of a module front to back:          *)
(*   ReadPreamble   magic and version                                      *)
(*   ReadSection    one section: id (known, ascending), size (unsigned     *)
(*                  LEB128), payload parsed by the reader of that section, *)
(*                  which must consume exactly `size` bytes                *)
(*   Finish         end of input: one code body per declared function,     *)
(*                  type / function / export indices in range              *)
(*   ValidateBody   type-checks one function body against its signature    *)
(*                  with the operand-stack discipline of the format        *)
(*   ExecCall       runs one exported function on given arguments          *)
(* Integers are read with the LEB128 decoders of module Leb128 (unsigned   *)
(* for counts, sizes and indices, signed for i32.const), names are         *)
(* length-prefixed byte strings.  Sections and opcodes the backend never   *)
(* emits are outside the modelled subset: the verdict is then "unmodelled" *)
(* and the driver falls back on an independent engine.                     *)
(* Cases come from the JSON file named by BATCH:                           *)
(*   [id, bytes : Seq(0..255), calls : Seq([name : Seq(byte), args])]      *)
(***************************************************************************)
EXTENDS Leb128, NslArith, TLC, Json, IOUtils

Batch == JsonDeserialize(IOEnv.BATCH)
VARIABLES cid, pos, status, why, lastid, mod, fi, results
vars == <<cid, pos, status, why, lastid, mod, fi, results>>
Bytes == Batch[cid].bytes
N == Len(Bytes)

Bad(w) == [ok |-> FALSE, why |-> w]
Ok(v, nxt) == [ok |-> TRUE, val |-> v, next |-> nxt]
\* an unsigned number small enough for a TLC integer (counts, sizes, indices)
UNum(p) == LET r == ReadU(Bytes, p) IN
          IF ~r.ok THEN Bad(r.why) ELSE IF ~Small(r.bits) THEN Bad("count/size/index beyond 2^24") ELSE Ok(ToNat(r.bits), r.next)

IsValType(b) == b \in {127, 126, 125, 124}
VT(b) == CASE b = 127 -> "i32" [] b = 126 -> "i64" [] b = 125 -> "f32" [] b = 124 -> "f64"

RECURSIVE ValTypes(_, _, _)
ValTypes(p, n, acc) == IF n = 0 THEN Ok(acc, p)
                       ELSE IF p > N THEN Bad("unexpected end in a value type vector")
                       ELSE IF ~IsValType(Bytes[p]) THEN Bad("not a value type")
                       ELSE ValTypes(p + 1, n - 1, Append(acc, VT(Bytes[p])))
FuncType(p) == IF p > N \/ Bytes[p] # 96 THEN Bad("function type must start with 0x60") ELSE
               LET np == UNum(p + 1) IN IF ~np.ok THEN np ELSE
               LET ps == ValTypes(np.next, np.val, <<>>) IN IF ~ps.ok THEN ps ELSE
               LET nr == UNum(ps.next) IN IF ~nr.ok THEN nr ELSE
               LET rs == ValTypes(nr.next, nr.val, <<>>) IN IF ~rs.ok THEN rs ELSE
               IF Len(rs.val) > 1 THEN Bad("more than one result") ELSE Ok([params |-> ps.val, results |-> rs.val], rs.next)
RECURSIVE FuncTypes(_, _, _)
FuncTypes(p, n, acc) == IF n = 0 THEN Ok(acc, p) ELSE
                        LET t == FuncType(p) IN IF ~t.ok THEN t ELSE FuncTypes(t.next, n - 1, Append(acc, t.val))
RECURSIVE Nats(_, _, _)
Nats(p, n, acc) == IF n = 0 THEN Ok(acc, p) ELSE LET x == UNum(p) IN IF ~x.ok THEN x ELSE Nats(x.next, n - 1, Append(acc, x.val))
Limits(p) == IF p > N THEN Bad("unexpected end in limits") ELSE
             IF Bytes[p] = 0 THEN (LET a == UNum(p + 1) IN IF ~a.ok THEN a ELSE Ok([min |-> a.val, max |-> -1], a.next))
             ELSE IF Bytes[p] = 1 THEN (LET a == UNum(p + 1) IN IF ~a.ok THEN a ELSE LET b == UNum(a.next) IN IF ~b.ok THEN b ELSE
                                        IF b.val < a.val THEN Bad("limits: max below min") ELSE Ok([min |-> a.val, max |-> b.val], b.next))
             ELSE Bad("limits flag")
RECURSIVE Tables(_, _, _)
Tables(p, n, acc) == IF n = 0 THEN Ok(acc, p) ELSE
                     IF p > N \/ Bytes[p] # 112 THEN Bad("table element type must be funcref") ELSE
                     LET l == Limits(p + 1) IN IF ~l.ok THEN l ELSE Tables(l.next, n - 1, Append(acc, l.val))
RECURSIVE Mems(_, _, _)
Mems(p, n, acc) == IF n = 0 THEN Ok(acc, p) ELSE LET l == Limits(p) IN IF ~l.ok THEN l ELSE Mems(l.next, n - 1, Append(acc, l.val))
\* a name: length-prefixed bytes (the driver checks that they are the UTF-8 encoding of the name it passed in)
Name(p) == LET n == UNum(p) IN IF ~n.ok THEN n ELSE
           IF n.next + n.val - 1 > N THEN Bad("name runs past the end") ELSE Ok(SubSeq(Bytes, n.next, n.next + n.val - 1), n.next + n.val)
RECURSIVE Exports(_, _, _)
Exports(p, n, acc) == IF n = 0 THEN Ok(acc, p) ELSE
                      LET nm == Name(p) IN IF ~nm.ok THEN nm ELSE
                      IF nm.next > N \/ Bytes[nm.next] \notin 0..3 THEN Bad("export kind") ELSE
                      LET ix == UNum(nm.next + 1) IN IF ~ix.ok THEN ix ELSE
                      Exports(ix.next, n - 1, Append(acc, [name |-> nm.val, kind |-> Bytes[nm.next], index |-> ix.val]))

\* ---- code bodies
RECURSIVE LocalGroups(_, _, _)
LocalGroups(p, n, acc) == IF n = 0 THEN Ok(acc, p) ELSE
                          LET c == UNum(p) IN IF ~c.ok THEN c ELSE
                          IF c.next > N \/ ~IsValType(Bytes[c.next]) THEN Bad("local declaration: not a value type") ELSE
                          IF Len(acc) + c.val > 5000 THEN Bad("too many locals") ELSE
                          LocalGroups(c.next + 1, n - 1, acc \o [j \in 1..c.val |-> VT(Bytes[c.next])])
OpName(b) ==
  CASE b = 11 -> "end" [] b = 15 -> "return" [] b = 32 -> "local.get" [] b = 33 -> "local.set" [] b = 34 -> "local.tee"
    [] b = 65 -> "i32.const" [] b = 67 -> "f32.const"
    [] b = 69 -> "i32.eqz" [] b = 70 -> "i32.eq" [] b = 71 -> "i32.ne" [] b = 72 -> "i32.lt_s" [] b = 73 -> "i32.lt_u" [] b = 74 -> "i32.gt_s"
    [] b = 75 -> "i32.gt_u" [] b = 76 -> "i32.le_s" [] b = 77 -> "i32.le_u" [] b = 78 -> "i32.ge_s" [] b = 79 -> "i32.ge_u"
    [] b = 91 -> "f32.eq" [] b = 92 -> "f32.ne" [] b = 93 -> "f32.lt" [] b = 94 -> "f32.gt" [] b = 95 -> "f32.le" [] b = 96 -> "f32.ge"
    [] b = 106 -> "i32.add" [] b = 107 -> "i32.sub" [] b = 108 -> "i32.mul" [] b = 109 -> "i32.div_s" [] b = 110 -> "i32.div_u"
    [] b = 146 -> "f32.add" [] b = 147 -> "f32.sub" [] b = 148 -> "f32.mul" [] b = 149 -> "f32.div"
    [] OTHER -> "?"
\* instructions up to position `stop` (exclusive); the last one must be the `end` that closes the body
RECURSIVE Instrs(_, _, _)
Instrs(p, stop, acc) ==
  IF p >= stop THEN Bad("body does not end with `end`") ELSE
  LET o == OpName(Bytes[p]) IN
  IF o = "?" THEN [ok |-> FALSE, why |-> "unmodelled opcode", unmodelled |-> TRUE]
  ELSE IF o = "end" THEN (IF p + 1 = stop THEN Ok(Append(acc, [op |-> "end"]), p + 1) ELSE [ok |-> FALSE, why |-> "unmodelled: nested block end", unmodelled |-> TRUE])
  ELSE IF o \in {"local.get", "local.set", "local.tee"} THEN
       (LET x == UNum(p + 1) IN IF ~x.ok THEN x ELSE Instrs(x.next, stop, Append(acc, [op |-> o, a |-> x.val])))
  ELSE IF o = "i32.const" THEN
       (LET x == ReadS(Bytes, p + 1) IN IF ~x.ok THEN Bad(x.why) ELSE Instrs(x.next, stop, Append(acc, [op |-> o, bits |-> x.bits])))
  ELSE IF o = "f32.const" THEN
       (IF p + 4 >= stop THEN Bad("f32.const immediate runs past the body") ELSE Instrs(p + 5, stop, Append(acc, [op |-> o, raw |-> SubSeq(Bytes, p + 1, p + 4)])))
  ELSE Instrs(p + 1, stop, Append(acc, [op |-> o]))
Body(p) == LET sz == UNum(p) IN IF ~sz.ok THEN sz ELSE
           LET stop == sz.next + sz.val IN
           IF stop > N + 1 THEN Bad("body size runs past the end of the section") ELSE
           LET ng == UNum(sz.next) IN IF ~ng.ok THEN ng ELSE
           LET ls == LocalGroups(ng.next, ng.val, <<>>) IN IF ~ls.ok THEN ls ELSE
           IF ls.next > stop THEN Bad("local declarations run past the body size") ELSE
           LET is == Instrs(ls.next, stop, <<>>) IN IF ~is.ok THEN is ELSE
           IF is.next # stop THEN Bad("body size differs from the bytes of the body") ELSE Ok([locals |-> ls.val, code |-> is.val], stop)
RECURSIVE Bodies(_, _, _)
Bodies(p, n, acc) == IF n = 0 THEN Ok(acc, p) ELSE LET b == Body(p) IN IF ~b.ok THEN b ELSE Bodies(b.next, n - 1, Append(acc, b.val))

\* payload of section `id` starting at p: a count followed by that many items
Payload(id, p) ==
  LET n == UNum(p) IN IF ~n.ok THEN n ELSE
  CASE id = 1 -> FuncTypes(n.next, n.val, <<>>)
    [] id = 3 -> Nats(n.next, n.val, <<>>)
    [] id = 4 -> Tables(n.next, n.val, <<>>)
    [] id = 5 -> Mems(n.next, n.val, <<>>)
    [] id = 7 -> Exports(n.next, n.val, <<>>)
    [] id = 10 -> Bodies(n.next, n.val, <<>>)
SecName(id) == CASE id = 1 -> "types" [] id = 3 -> "funcs" [] id = 4 -> "tables" [] id = 5 -> "mems" [] id = 7 -> "exports" [] id = 10 -> "codes"
EmptyMod == [types |-> <<>>, funcs |-> <<>>, tables |-> <<>>, mems |-> <<>>, exports |-> <<>>, codes |-> <<>>, sections |-> <<>>]

-----------------------------------------------------------------------------
(* Validation of one body: operand type stack; after `return` the rest is unreachable *)
LocalTypes(k) == mod.types[mod.funcs[k] + 1].params \o mod.codes[k].locals
ResultTypes(k) == mod.types[mod.funcs[k] + 1].results
BinI == {"i32.add", "i32.sub", "i32.mul", "i32.div_s", "i32.div_u"}
CmpI == {"i32.eq", "i32.ne", "i32.lt_s", "i32.lt_u", "i32.gt_s", "i32.gt_u", "i32.le_s", "i32.le_u", "i32.ge_s", "i32.ge_u"}
BinF == {"f32.add", "f32.sub", "f32.mul", "f32.div"}
CmpF == {"f32.eq", "f32.ne", "f32.lt", "f32.gt", "f32.le", "f32.ge"}
\* pop the types `want` (last = top of stack) from st = [stack, dead]; result [ok, stack]
Pop(st, want) ==
  LET RECURSIVE P(_, _)
      P(stack, k) == IF k = 0 THEN [ok |-> TRUE, stack |-> stack]
                     ELSE IF stack = <<>> THEN (IF st.dead THEN [ok |-> TRUE, stack |-> <<>>] ELSE [ok |-> FALSE])
                     ELSE IF stack[Len(stack)] # want[k] THEN [ok |-> FALSE]
                     ELSE P(SubSeq(stack, 1, Len(stack) - 1), k - 1)
  IN P(st.stack, Len(want))
RECURSIVE Check(_, _, _)
Check(k, j, st) ==
  LET code == mod.codes[k].code  lt == LocalTypes(k)  rt == ResultTypes(k) IN
  IF j > Len(code) THEN "body without end"
  ELSE LET ins == code[j]  o == ins.op
           Go(want, push) == LET r == Pop(st, want) IN
                             IF ~r.ok THEN "operand stack mismatch at " \o o ELSE Check(k, j + 1, [stack |-> r.stack \o push, dead |-> st.dead])
       IN
  CASE o = "end" -> (LET r == Pop(st, rt) IN IF ~r.ok \/ (r.stack # <<>> /\ ~st.dead) THEN "result mismatch at end of body" ELSE "ok")
    [] o = "return" -> (LET r == Pop(st, rt) IN IF ~r.ok THEN "operand stack mismatch at return" ELSE Check(k, j + 1, [stack |-> <<>>, dead |-> TRUE]))
    [] o = "local.get" -> IF ins.a >= Len(lt) THEN "local index out of range" ELSE Go(<<>>, <<lt[ins.a + 1]>>)
    [] o = "local.set" -> IF ins.a >= Len(lt) THEN "local index out of range" ELSE Go(<<lt[ins.a + 1]>>, <<>>)
    [] o = "local.tee" -> IF ins.a >= Len(lt) THEN "local index out of range" ELSE Go(<<lt[ins.a + 1]>>, <<lt[ins.a + 1]>>)
    [] o = "i32.const" -> Go(<<>>, <<"i32">>)
    [] o = "f32.const" -> Go(<<>>, <<"f32">>)
    [] o = "i32.eqz" -> Go(<<"i32">>, <<"i32">>)
    [] o \in BinI \cup CmpI -> Go(<<"i32", "i32">>, <<"i32">>)
    [] o \in BinF -> Go(<<"f32", "f32">>, <<"f32">>)
    [] o \in CmpF -> Go(<<"f32", "f32">>, <<"i32">>)

-----------------------------------------------------------------------------
(* Execution of the modelled subset on exact values (NslArith): ints within 2^30, floats exactly representable in f32 *)
BitsVal30(bits) == LET RECURSIVE V(_)
                       V(k) == IF k > 30 THEN 0 ELSE bits[k] + 2 * V(k + 1)
                   IN V(1)
BitsToInt(bits) == IF bits[32] = 0 THEN (IF \A k \in 31..32 : bits[k] = 0 THEN IntV(BitsVal30(bits)) ELSE OOD)
                   ELSE (IF \A k \in 31..32 : bits[k] = 1 THEN IntV(-(BitsVal30([k \in 1..32 |-> 1 - bits[k]]) + 1)) ELSE OOD)
F32Const(raw) ==       \* four little-endian bytes of an IEEE 754 single
  LET sign == raw[4] \div 128
      ex == (raw[4] % 128) * 2 + (raw[3] \div 128)
      frac == (raw[3] % 128) * 65536 + raw[2] * 256 + raw[1]
      m == IF ex = 0 THEN frac ELSE frac + 8388608
      e == (IF ex = 0 THEN 1 ELSE ex) - 150               \* value = m * 2^e
      sm == IF sign = 1 THEN -m ELSE m IN
  IF ex = 255 THEN OOD
  ELSE IF e <= 0 THEN (LET r == Norm(sm, -e) IN IF r.e > MaxE THEN OOD ELSE r)
  ELSE IF e > 6 \/ ~MulOk(sm, Pow2(e)) THEN OOD ELSE Norm(sm * Pow2(e), 0)
\* exactly representable as an f32: at most 24 significant bits
InF32(x) == IsBad(x) \/ Abs(x.n) < 16777216
F32(x) == IF InF32(x) THEN x ELSE OOD
ExecOp(o, a, b) ==
  CASE o = "i32.add" -> IntOp("+", a.v, b.v) [] o = "i32.sub" -> IntOp("-", a.v, b.v) [] o = "i32.mul" -> IntOp("*", a.v, b.v)
    [] o = "i32.div_s" -> IntOp("/", a.v, b.v)
    [] o = "i32.div_u" -> IF a.v < 0 \/ b.v < 0 THEN OOD ELSE IntOp("/", a.v, b.v)
    [] o = "i32.eq" -> IntOp("==", a.v, b.v) [] o = "i32.ne" -> IntOp("!=", a.v, b.v)
    [] o = "i32.lt_s" -> IntOp("<", a.v, b.v) [] o = "i32.gt_s" -> IntOp(">", a.v, b.v) [] o = "i32.le_s" -> IntOp("<=", a.v, b.v) [] o = "i32.ge_s" -> IntOp(">=", a.v, b.v)
    [] o \in {"i32.lt_u", "i32.gt_u", "i32.le_u", "i32.ge_u"} ->
         IF a.v < 0 \/ b.v < 0 THEN OOD ELSE IntOp(CASE o = "i32.lt_u" -> "<" [] o = "i32.gt_u" -> ">" [] o = "i32.le_u" -> "<=" [] o = "i32.ge_u" -> ">=", a.v, b.v)
    [] o = "f32.add" -> F32(FloatOp("+", a, b)) [] o = "f32.sub" -> F32(FloatOp("-", a, b)) [] o = "f32.mul" -> F32(FloatOp("*", a, b)) [] o = "f32.div" -> F32(FloatOp("/", a, b))
    [] o = "f32.eq" -> FloatOp("==", a, b) [] o = "f32.ne" -> FloatOp("!=", a, b) [] o = "f32.lt" -> FloatOp("<", a, b)
    [] o = "f32.gt" -> FloatOp(">", a, b) [] o = "f32.le" -> FloatOp("<=", a, b) [] o = "f32.ge" -> FloatOp(">=", a, b)
RECURSIVE Run(_, _, _, _)
Run(k, j, locals, stack) ==
  LET ins == mod.codes[k].code[j]  o == ins.op  top == Len(stack) IN
  CASE o \in {"end", "return"} -> IF ResultTypes(k) = <<>> THEN [t |-> "void"] ELSE stack[top]
    [] o = "local.get" -> Run(k, j + 1, locals, Append(stack, locals[ins.a + 1]))
    [] o = "local.set" -> Run(k, j + 1, [locals EXCEPT ![ins.a + 1] = stack[top]], SubSeq(stack, 1, top - 1))
    [] o = "local.tee" -> Run(k, j + 1, [locals EXCEPT ![ins.a + 1] = stack[top]], stack)
    [] o = "i32.const" -> LET v == BitsToInt(ins.bits) IN IF IsBad(v) THEN v ELSE Run(k, j + 1, locals, Append(stack, v))
    [] o = "f32.const" -> LET v == F32Const(ins.raw) IN IF IsBad(v) THEN v ELSE Run(k, j + 1, locals, Append(stack, v))
    [] o = "i32.eqz" -> Run(k, j + 1, locals, Append(SubSeq(stack, 1, top - 1), Bv(stack[top].v = 0)))
    [] OTHER -> LET r == ExecOp(o, stack[top - 1], stack[top]) IN
                IF IsBad(r) THEN r ELSE Run(k, j + 1, locals, Append(SubSeq(stack, 1, top - 2), r))
ZeroOf(t) == IF t = "f32" THEN [t |-> "float", n |-> 0, e |-> 0] ELSE IntV(0)
ExportIndex(name) == IF \E x \in 1..Len(mod.exports) : mod.exports[x].name = name /\ mod.exports[x].kind = 0
                     THEN mod.exports[CHOOSE x \in 1..Len(mod.exports) : mod.exports[x].name = name /\ mod.exports[x].kind = 0].index + 1 ELSE 0
Call(c) == LET k == ExportIndex(c.name) IN
           IF k = 0 THEN [t |-> "noexport"]
           ELSE IF Len(c.args) # Len(mod.types[mod.funcs[k] + 1].params) THEN [t |-> "arity"]
           ELSE IF \E j \in 1..Len(c.args) : IsBad(c.args[j]) THEN OOD          \* an argument outside the exact domain
           ELSE Run(k, 1, c.args \o [j \in 1..Len(mod.codes[k].locals) |-> ZeroOf(mod.codes[k].locals[j])], <<>>)

-----------------------------------------------------------------------------
Init == /\ cid \in 1..Len(Batch) /\ pos = 1 /\ status = "preamble" /\ why = "" /\ lastid = 0 /\ mod = EmptyMod /\ fi = 1 /\ results = <<>>
Stop(s, w) == /\ status' = s /\ why' = w /\ UNCHANGED <<cid, pos, lastid, mod, fi, results>>
ReadPreamble == /\ status = "preamble"
                /\ IF N >= 8 /\ SubSeq(Bytes, 1, 8) = <<0, 97, 115, 109, 1, 0, 0, 0>>
                   THEN /\ status' = "sections" /\ pos' = 9 /\ UNCHANGED <<cid, why, lastid, mod, fi, results>>
                   ELSE Stop("invalid", "preamble: magic or version")
ReadSection ==
  /\ status = "sections" /\ pos <= N
  /\ LET id == Bytes[pos]  sz == UNum(pos + 1) IN
     IF id \in {0, 2, 6, 8, 9, 11, 12} THEN Stop("unmodelled", "section the backend never emits")
     ELSE IF id \notin {1, 3, 4, 5, 7, 10} THEN Stop("invalid", "unknown section id")
     ELSE IF id <= lastid THEN Stop("invalid", "sections out of order or repeated")
     ELSE IF ~sz.ok THEN Stop("invalid", "section size: " \o sz.why)
     ELSE LET stop == sz.next + sz.val IN
          IF stop > N + 1 THEN Stop("invalid", "section size runs past the end of the module")
          ELSE LET pl == Payload(id, sz.next) IN
               IF ~pl.ok THEN (IF "unmodelled" \in DOMAIN pl THEN Stop("unmodelled", pl.why) ELSE Stop("invalid", SecName(id) \o ": " \o pl.why))
               ELSE IF pl.next # stop THEN Stop("invalid", SecName(id) \o ": size field differs from the bytes of the payload")
               ELSE /\ mod' = [mod EXCEPT ![SecName(id)] = pl.val, !.sections = Append(@, [id |-> id, size |-> sz.val])]
                    /\ pos' = stop /\ lastid' = id /\ UNCHANGED <<cid, status, why, fi, results>>
Finish ==
  /\ status = "sections" /\ pos = N + 1
  /\ IF Len(mod.funcs) # Len(mod.codes) THEN Stop("invalid", "number of code bodies differs from the number of declared functions")
     ELSE IF \E k \in 1..Len(mod.funcs) : mod.funcs[k] >= Len(mod.types) THEN Stop("invalid", "type index out of range")
     ELSE IF \E x \in 1..Len(mod.exports) : mod.exports[x].kind = 0 /\ mod.exports[x].index >= Len(mod.funcs) THEN Stop("invalid", "export names a function that does not exist")
     ELSE IF \E x \in 1..Len(mod.exports) : (mod.exports[x].kind = 1 /\ mod.exports[x].index >= Len(mod.tables)) \/ (mod.exports[x].kind = 2 /\ mod.exports[x].index >= Len(mod.mems)) \/ mod.exports[x].kind = 3
          THEN Stop("invalid", "export index out of range")
     ELSE IF \E x, y \in 1..Len(mod.exports) : x # y /\ mod.exports[x].name = mod.exports[y].name THEN Stop("invalid", "duplicate export name")
     ELSE IF Len(mod.tables) > 1 \/ Len(mod.mems) > 1 THEN Stop("invalid", "more than one table or memory")
     ELSE /\ status' = "validate" /\ fi' = 1 /\ UNCHANGED <<cid, pos, why, lastid, mod, results>>
ValidateBody ==
  /\ status = "validate"
  /\ IF fi > Len(mod.codes) THEN /\ status' = "exec" /\ fi' = 1 /\ UNCHANGED <<cid, pos, why, lastid, mod, results>>
     ELSE LET v == Check(fi, 1, [stack |-> <<>>, dead |-> FALSE]) IN
          IF v = "ok" THEN /\ fi' = fi + 1 /\ UNCHANGED <<cid, pos, status, why, lastid, mod, results>>
          ELSE Stop("invalid", "function body " \o ToString(fi - 1) \o ": " \o v)
ExecCall ==
  /\ status = "exec"
  /\ IF fi > Len(Batch[cid].calls) THEN /\ status' = "valid" /\ UNCHANGED <<cid, pos, why, lastid, mod, fi, results>>
     ELSE /\ results' = Append(results, Call(Batch[cid].calls[fi])) /\ fi' = fi + 1 /\ UNCHANGED <<cid, pos, status, why, lastid, mod>>
Next == ReadPreamble \/ ReadSection \/ Finish \/ ValidateBody \/ ExecCall
Spec == Init /\ [][Next]_vars

\* the reader only moves forward, and section ids only increase
Forward == [][pos' >= pos /\ lastid' >= lastid]_vars
Report == status \in {"valid", "invalid", "unmodelled"} =>
            PrintT(ToJson([id |-> Batch[cid].id, status |-> status, why |-> why, sections |-> mod.sections,
                           nfuncs |-> Len(mod.funcs), exports |-> mod.exports,
                           locals |-> [k \in 1..Len(mod.codes) |-> Len(mod.codes[k].locals)],
                           ops |-> [k \in 1..Len(mod.codes) |-> [j \in 1..Len(mod.codes[k].code) |-> mod.codes[k].code[j].op]],
                           sigs |-> [k \in 1..Len(mod.funcs) |-> IF mod.funcs[k] < Len(mod.types) THEN mod.types[mod.funcs[k] + 1] ELSE [params |-> <<>>, results |-> <<>>]],
                           results |-> results]))
=============================================================================
