------------------------------- MODULE Leb128 -------------------------------
(***************************************************************************)
(* LEB128 as the WebAssembly binary format prescribes it (property C19).   *)
(*                                                                         *)
(* TLC integers are 32-bit, so 32-bit unsigned values and the sign-        *)
(* extension arithmetic of the decoder cannot be done on TLC integers.     *)
(* A value is therefore a sequence of 32 bits, least significant first     *)
(* (Bits32), which is exactly the level at which LEB128 is defined: the    *)
(* encoding is the value's bits in groups of seven, each byte carrying a   *)
(* continuation flag in bit 7.                                             *)
(*   ReadU / ReadS  the standard decoders, reading from position p of a    *)
(*                  byte sequence: [ok, bits, next]                        *)
(*   EncU / EncS    reference encoders (shortest form)                     *)
(* Round-trip laws are checked by MC_C19 over all boundary patterns.       *)
(***************************************************************************)
EXTENDS Integers, Sequences, FiniteSets

Bit(b, j) == (b \div (CASE j = 0 -> 1 [] j = 1 -> 2 [] j = 2 -> 4 [] j = 3 -> 8 [] j = 4 -> 16 [] j = 5 -> 32 [] j = 6 -> 64 [] j = 7 -> 128)) % 2
Zero32 == [k \in 1..32 |-> 0]
Ones32 == [k \in 1..32 |-> 1]

\* the bytes of one LEB128 number starting at p: all with bit 7 set except the last; at most 5 for 32-bit values
RECURSIVE GroupEnd(_, _, _)
GroupEnd(bytes, p, n) == IF p > Len(bytes) \/ n > 5 THEN 0
                         ELSE IF bytes[p] < 128 THEN p ELSE GroupEnd(bytes, p + 1, n + 1)
\* bit k (0-based) of the number made of the 7-bit groups bytes[p..q], extended with `fill` beyond the groups
GroupBit(bytes, p, q, k, fill) == IF p + (k \div 7) > q THEN fill ELSE Bit(bytes[p + (k \div 7)], k % 7)

\* unsigned: the unused high bits of the last group must be zero (the value has to fit in 32 bits)
ReadU(bytes, p) ==
  LET q == GroupEnd(bytes, p, 1) IN
  IF q = 0 THEN [ok |-> FALSE, why |-> "unterminated or overlong LEB128 number"]
  ELSE IF \E k \in 32..(7 * (q - p + 1) - 1) : GroupBit(bytes, p, q, k, 0) = 1 THEN [ok |-> FALSE, why |-> "unsigned LEB128 number exceeds 32 bits"]
  ELSE [ok |-> TRUE, bits |-> [k \in 1..32 |-> GroupBit(bytes, p, q, k - 1, 0)], next |-> q + 1]
\* signed: bit 6 of the last group is the sign and is extended; the unused bits of a fifth group must agree with it
ReadS(bytes, p) ==
  LET q == GroupEnd(bytes, p, 1) IN
  IF q = 0 THEN [ok |-> FALSE, why |-> "unterminated or overlong LEB128 number"]
  ELSE LET sign == Bit(bytes[q], 6) IN
       \* five groups carry 35 bits: the value fits in 32 bits iff bits 31..34 all equal the sign
       IF q - p + 1 = 5 /\ \E k \in 31..34 : GroupBit(bytes, p, q, k, sign) # sign THEN [ok |-> FALSE, why |-> "signed LEB128 number exceeds 32 bits"]
       ELSE [ok |-> TRUE, bits |-> [k \in 1..32 |-> GroupBit(bytes, p, q, k - 1, sign)], next |-> q + 1]

\* small numbers (counts, sizes, indices of realistic modules) as TLC integers; Big if they do not fit in 24 bits
RECURSIVE BitsVal(_, _)
BitsVal(bits, k) == IF k > 24 THEN 0 ELSE bits[k] + 2 * BitsVal(bits, k + 1)
Small(bits) == \A k \in 25..32 : bits[k] = 0
ToNat(bits) == BitsVal(bits, 1)
RECURSIVE NatBitsFrom(_, _)
NatBitsFrom(n, k) == IF k > 32 THEN <<>> ELSE <<n % 2>> \o NatBitsFrom(n \div 2, k + 1)
NatBits(n) == NatBitsFrom(n, 1)                       \* n >= 0
\* two's complement bits of a TLC integer (|i| < 2^31)
IntBits(i) == IF i >= 0 THEN NatBits(i) ELSE LET m == NatBits(-(i + 1)) IN [k \in 1..32 |-> 1 - m[k]]

\* reference encoders: shortest form
TopSet(bits) == IF \E k \in 1..32 : bits[k] = 1 THEN CHOOSE k \in 1..32 : bits[k] = 1 /\ \A j \in (k + 1)..32 : bits[j] = 0 ELSE 0
GroupsU(bits) == IF TopSet(bits) = 0 THEN 1 ELSE (TopSet(bits) + 6) \div 7
GroupVal(bits, g, fill) == LET B(k) == IF k <= 32 THEN bits[k] ELSE fill IN
                           B(7 * g + 1) + 2 * B(7 * g + 2) + 4 * B(7 * g + 3) + 8 * B(7 * g + 4) + 16 * B(7 * g + 5) + 32 * B(7 * g + 6) + 64 * B(7 * g + 7)
EncU(bits) == [g \in 1..GroupsU(bits) |-> GroupVal(bits, g - 1, 0) + (IF g < GroupsU(bits) THEN 128 ELSE 0)]
\* signed: the smallest number of groups such that all bits from the group's bit 6 upwards equal the sign
GroupsS(bits) == LET s == bits[32] IN
                 CHOOSE n \in 1..5 : /\ \A k \in (7 * n)..32 : bits[k] = s
                                     /\ \A m \in 1..(n - 1) : ~(\A k \in (7 * m)..32 : bits[k] = s)
EncS(bits) == [g \in 1..GroupsS(bits) |-> GroupVal(bits, g - 1, bits[32]) + (IF g < GroupsS(bits) THEN 128 ELSE 0)]
=============================================================================
