------------------------------ MODULE Pipeline ------------------------------
(***************************************************************************)
(* The compilation pipeline and what may happen after it (property C05).   *)
(*                                                                         *)
(* Events (recorded by the verification hooks in nsl/Compiler.py and by    *)
(* the driver) are consumed one by one; the specification says which event *)
(* is admissible in which state:                                           *)
(*   parse -> AST passes 0, 1, 2, ... in order, each ok, failed or crashed *)
(*         -> (only if none failed, and all required validation passes     *)
(*             ran) lowering -> IR passes in order, an optimisation pass   *)
(*             is skipped iff optimisation is off -> done                  *)
(*   a failed or crashed pass is followed by nothing but the rejection;    *)
(*   a module is returned iff the pipeline reached `done`;                 *)
(*   after an accepted compilation: linking must succeed, and an           *)
(*   invocation may end only in: a value, division by zero, or a dynamic   *)
(*   index outside its array / vector / matrix.  Any other failure is an   *)
(*   internal error - the violation C05 is about.                          *)
(* Trace (JSON file named by BATCH): Seq([id, events : Seq(event)]).       *)
(***************************************************************************)
EXTENDS Integers, Sequences, FiniteSets, TLC, Json, IOUtils

Batch == JsonDeserialize(IOEnv.BATCH)
Required == {"ComputeTypesPass", "rewrite-assign-equal", "validate-array-access-type", "validate-array-out-of-bounds-access", "validate-exported-functions",
             "validate-flow-statements", "validate-swizzle-mask", "validate-variable-names", "add-implicit-casts"}
Optimisations == {"optimize-constant-cast", "optimize-load-after-store"}
RequiredIR == {"rewrite-function-arg-accessor"}

VARIABLES cid, l, st, opt, nextAst, nextIr, ran, verdict
vars == <<cid, l, st, opt, nextAst, nextIr, ran, verdict>>
Ev == Batch[cid].events
Init == /\ cid \in 1..Len(Batch) /\ l = 1 /\ st = "init" /\ opt = FALSE /\ nextAst = 0 /\ nextIr = 0 /\ ran = {} /\ verdict = "open"

Go(s) == st' = s /\ UNCHANGED <<opt, nextAst, nextIr, ran>>
Bad(w) == /\ verdict' = w /\ UNCHANGED <<st, opt, nextAst, nextIr, ran>>
Step(e) ==
  CASE e.e = "stage" /\ e.s = "parse" -> IF st = "init" THEN st' = "parsing" /\ opt' = e.opt /\ UNCHANGED <<nextAst, nextIr, ran>> /\ UNCHANGED verdict ELSE Bad("parse out of place")
    [] e.e = "stage" /\ e.s = "parsed" -> IF st = "parsing" THEN Go("ast") /\ UNCHANGED verdict ELSE Bad("parsed out of place")
    [] e.e = "pass" /\ e.kind = "AST" ->
         IF st # "ast" THEN Bad("an AST pass ran although the pipeline was in state " \o st)
         ELSE IF e.i # nextAst THEN Bad("AST passes out of order")
         ELSE IF e.r = "ok" THEN st' = st /\ nextAst' = nextAst + 1 /\ ran' = ran \cup {e.name} /\ UNCHANGED <<opt, nextIr, verdict>>
         ELSE IF Required \subseteq ran THEN Bad("internal error in pass " \o e.name \o " after the program passed validation")
         ELSE Go("rejected") /\ UNCHANGED verdict                                  \* failed or crashed: nothing but the rejection may follow
    [] e.e = "stage" /\ e.s = "lower" ->
         IF st # "ast" THEN Bad("lowering started in state " \o st)
         ELSE IF ~(Required \subseteq ran) THEN Bad("lowering started before all validation passes ran")
         ELSE Go("lowering") /\ UNCHANGED verdict
    [] e.e = "stage" /\ e.s = "lowered" -> IF st = "lowering" THEN Go("ir") /\ UNCHANGED verdict ELSE Bad("lowered out of place")
    [] e.e = "pass" /\ e.kind = "IR" ->
         IF st # "ir" THEN Bad("an IR pass ran although the pipeline was in state " \o st)
         ELSE IF e.i # nextIr THEN Bad("IR passes out of order")
         ELSE IF e.r = "skip" THEN (IF e.name \in Optimisations /\ ~opt THEN st' = st /\ nextIr' = nextIr + 1 /\ UNCHANGED <<opt, nextAst, ran, verdict>>
                                    ELSE Bad("pass " \o e.name \o " skipped although it has to run"))
         ELSE IF e.r = "ok" THEN (IF e.name \in Optimisations /\ ~opt THEN Bad("optimisation pass ran with optimisation off")
                                  ELSE st' = st /\ nextIr' = nextIr + 1 /\ ran' = ran \cup {e.name} /\ UNCHANGED <<opt, nextAst, verdict>>)
         ELSE Bad("internal error in IR pass " \o e.name)
    [] e.e = "stage" /\ e.s = "wasm" -> IF st = "ir" THEN Go("ir") /\ UNCHANGED verdict ELSE Bad("wasm out of place")
    [] e.e = "stage" /\ e.s = "done" ->
         IF st # "ir" THEN Bad("done reached from state " \o st)
         ELSE IF ~(RequiredIR \subseteq ran) THEN Bad("done before the required IR passes ran")
         ELSE Go("accepted") /\ UNCHANGED verdict
    [] e.e = "result" ->
         IF e.r = "module" THEN (IF st = "accepted" THEN Go("accepted") /\ UNCHANGED verdict ELSE Bad("a module was returned although the pipeline stopped in state " \o st))
         ELSE (IF st = "accepted" THEN Bad("the pipeline finished but no module was returned")
               \* the front end accepted the program: a failure in lowering or in an IR pass is an internal error, not a rejection
               ELSE IF st \in {"lowering", "ir"} THEN Bad("internal error after the front end accepted the program (" \o st \o "): " \o e.what)
               ELSE Go("refused") /\ UNCHANGED verdict)
    [] e.e = "link" -> IF st # "accepted" THEN Bad("link without an accepted module")
                       ELSE IF e.r = "ok" THEN Go("linked") /\ UNCHANGED verdict ELSE Bad("internal error while linking: " \o e.what)
    [] e.e = "run" -> IF st # "linked" THEN Bad("run without a linked program")
                      ELSE IF e.r \in {"ok", "divzero", "oob", "budget"} THEN Go("linked") /\ UNCHANGED verdict
                      ELSE Bad("internal error at run time: " \o e.what)
    [] OTHER -> Bad("unknown event")
Consume == /\ verdict = "open" /\ l <= Len(Ev) /\ Step(Ev[l]) /\ l' = l + 1 /\ UNCHANGED cid
Close == /\ verdict = "open" /\ l = Len(Ev) + 1 /\ verdict' = "conforms" /\ UNCHANGED <<cid, l, st, opt, nextAst, nextIr, ran>>
Next == Consume \/ Close
Spec == Init /\ [][Next]_vars

\* once rejected, the pipeline does nothing but report the rejection
RejectedIsFinal == [][st = "rejected" => st' \in {"rejected", "refused"}]_vars
Report == verdict # "open" => PrintT(ToJson([id |-> Batch[cid].id, verdict |-> verdict, at |-> l - 1, state |-> st]))
=============================================================================
