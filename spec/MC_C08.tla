------------------------------- MODULE MC_C08 -------------------------------
(***************************************************************************)
(* C08: every ordered pair / triple of the 13 binary operators, without    *)
(* parentheses and with every single parenthesis group the grammar allows. *)
(* TLC runs the shift/reduce machine of NslParse on each case, checks the  *)
(* machine against the recursive definition and the precedence law, and    *)
(* prints the tree and the value of the expression under fixed operand     *)
(* assignments; the driver (harness/c08.py) feeds the same token sequence, *)
(* in several layouts and contexts, to the real parser / compiler / VM.    *)
(***************************************************************************)
EXTENDS NslParse, NslArith, TLC, Json

CONSTANTS MinN, MaxN        \* number of operators per case (2 = pairs, 3 = triples)

VARIABLE case
vars == <<case, toks, pos, opds, ops, done>>

Names == <<"a", "b", "c", "d">>
Spans(n) == {<<0, 0>>} \cup {s \in (1..n) \X (2..(n + 1)) : s[1] < s[2]}
CaseSet == UNION {{[ops |-> os, span |-> sp] : os \in [1..n -> Operators], sp \in Spans(n)} : n \in MinN..MaxN}

RECURSIVE TokensFrom(_, _)
TokensFrom(c, k) ==
  LET n == Len(c.ops) IN
  IF k > n + 1 THEN <<>> ELSE
     (IF c.span[1] = k THEN <<LP>> ELSE <<>>) \o <<Opd(Names[k])>> \o (IF c.span[2] = k THEN <<RP>> ELSE <<>>)
     \o (IF k <= n THEN <<Op(c.ops[k])>> ELSE <<>>) \o TokensFrom(c, k + 1)
Tokens(c) == TokensFrom(c, 1)

\* operand assignments under which the driver also runs the compiled expression
Envs == << [a |-> 7, b |-> 3, c |-> 2, d |-> 5], [a |-> 1, b |-> 0, c |-> 1, d |-> 2],
           [a |-> 2, b |-> 5, c |-> 3, d |-> 1], [a |-> 0, b |-> 1, c |-> 0, d |-> 1],
           [a |-> 9, b |-> 4, c |-> 4, d |-> 3], [a |-> 3, b |-> 3, c |-> 1, d |-> 0] >>
RECURSIVE Eval(_, _)
Eval(t, env) == IF t.k = "leaf" THEN IntV(env[t.x])
                ELSE LET l == Eval(t.l, env) r == Eval(t.r, env) IN
                     IF IsBad(l) THEN l ELSE IF IsBad(r) THEN r ELSE IntOp(t.o, l.v, r.v)

\* value of `r OP= <expression>` for r = 100: the right-hand side is the WHOLE expression
Compound(v) == [o \in {"+", "-", "*", "/"} |-> IF IsBad(v) THEN v ELSE IntOp(o, 100, v.v)]

TokStr(t) == CASE t.k = "opd" -> t.x [] t.k = "op" -> t.o [] t.k = "lp" -> "(" [] t.k = "rp" -> ")"

Init == /\ case \in CaseSet /\ PInit(Tokens(case))
Next == PNext /\ UNCHANGED case
Spec == Init /\ [][Next]_vars

Report == done => PrintT(ToJson([ops |-> case.ops, span |-> case.span,
                                 toks |-> [i \in 1..Len(toks) |-> TokStr(toks[i])],
                                 tree |-> Result,
                                 vals |-> [i \in 1..Len(Envs) |-> Eval(Result, Envs[i])],
                                 cvals |-> [i \in 1..Len(Envs) |-> Compound(Eval(Result, Envs[i]))]]))
=============================================================================
