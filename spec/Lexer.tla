-------------------------------- MODULE Lexer --------------------------------
(***************************************************************************)
(* The lexical level of NSL as the scanner nsl/lexer.py implements it with *)
(* PLY: a text (sequence of characters) becomes a sequence of tokens       *)
(* [type, text, pos (0-based offset), line] and a set of offsets of        *)
(* illegal characters.  One action per scanner step (Scan):                *)
(*   SkipBlank     space or tab is ignored                                 *)
(*   Newlines      a run of line feeds advances the line counter           *)
(*   Word          identifier or keyword (longest run of word characters)  *)
(*   Number        floating constant, hex, octal, decimal constant - tried *)
(*                 in this order, each with the first alternative of its   *)
(*                 grammar that matches (K&R2 A.2.5); NAMED DEVIATION kept *)
(*                 from the code: a decimal constant may start with a sign *)
(*                 (`a-1` scans as  a  and  -1), because the language has  *)
(*                 no unary minus                                          *)
(*   Operator      the longest operator that matches                       *)
(*   Literal       one of  ; { } ( ) . [ ] , :                             *)
(*   Illegal       any other character is reported and skipped             *)
(* Invariants of the scanner, checked by TLC on every text it enumerates   *)
(* (all texts over a 12-character alphabet up to a length, plus probe      *)
(* texts handed in by the driver):                                         *)
(*   Covers        tokens, blanks and illegal characters tile the text:    *)
(*                 every token's text is the slice of the source at its    *)
(*                 position, tokens do not overlap and are in order        *)
(*   Progress      every step consumes at least one character              *)
(*   Maximal       a word / number token is not followed directly by a     *)
(*                 character that would have extended it                   *)
(* The driver (harness/lexcheck.py, part of C20 and C08) feeds the same    *)
(* texts to the real scanner and compares token for token.                 *)
(***************************************************************************)
EXTENDS Integers, Sequences, FiniteSets, TLC, Json, IOUtils

CONSTANTS MaxLen            \* texts over Alphabet up to this length are enumerated

Alphabet == {"a", "e", "0", "1", "8", ".", "+", "-", "=", "<", "&", " "}
Probes == IF "BATCH" \in DOMAIN IOEnv THEN JsonDeserialize(IOEnv.BATCH) ELSE <<>>      \* sequences of one-character strings

Digit == {"0", "1", "2", "3", "4", "5", "6", "7", "8", "9"}
OctDigit == {"0", "1", "2", "3", "4", "5", "6", "7"}
HexDigit == Digit \cup {"a", "b", "c", "d", "e", "f", "A", "B", "C", "D", "E", "F"}
Lower == {"a", "b", "c", "d", "e", "f", "g", "h", "i", "j", "k", "l", "m", "n", "o", "p", "q", "r", "s", "t", "u", "v", "w", "x", "y", "z"}
Upper == {"A", "B", "C", "D", "E", "F", "G", "H", "I", "J", "K", "L", "M", "N", "O", "P", "Q", "R", "S", "T", "U", "V", "W", "X", "Y", "Z"}
WordStart == Lower \cup Upper \cup {"_"}
WordChar == WordStart \cup Digit
Literals == {";", "{", "}", "(", ")", ".", "[", "]", ",", ":"}
Keywords == {"void", "float", "float2", "float3", "float4", "int", "int2", "int3", "int4", "uint", "uint2", "uint3", "uint4",
             "matrix3x3", "matrix4x4", "float3x3", "float4x4", "function", "if", "else", "struct", "return", "for", "continue",
             "break", "switch", "do", "while", "case", "export", "import", "__optional", "template", "class", "interface", "const"}
\* operators: text -> token type
OpName == [x \in {"+", "-", "*", "/", "%", "|", "&", "~", "^", "<<", ">>", "||", "&&", "!", "<", "<=", ">", ">=", "==", "!=", "=", "*=", "/=", "%=",
                  "+=", "-=", "<<=", ">>=", "&=", "^=", "|=", "++", "--", "->"} |->
           CASE x = "+" -> "PLUS" [] x = "-" -> "MINUS" [] x = "*" -> "TIMES" [] x = "/" -> "DIVIDE" [] x = "%" -> "MOD" [] x = "|" -> "OR" [] x = "&" -> "AND"
             [] x = "~" -> "NOT" [] x = "^" -> "XOR" [] x = "<<" -> "LSHIFT" [] x = ">>" -> "RSHIFT" [] x = "||" -> "LOR" [] x = "&&" -> "LAND" [] x = "!" -> "LNOT"
             [] x = "<" -> "LT" [] x = "<=" -> "LE" [] x = ">" -> "GT" [] x = ">=" -> "GE" [] x = "==" -> "EQ" [] x = "!=" -> "NE" [] x = "=" -> "EQUALS"
             [] x = "*=" -> "TIMESEQUAL" [] x = "/=" -> "DIVEQUAL" [] x = "%=" -> "MODEQUAL" [] x = "+=" -> "PLUSEQUAL" [] x = "-=" -> "MINUSEQUAL"
             [] x = "<<=" -> "LSHIFTEQUAL" [] x = ">>=" -> "RSHIFTEQUAL" [] x = "&=" -> "ANDEQUAL" [] x = "^=" -> "XOREQUAL" [] x = "|=" -> "OREQUAL"
             [] x = "++" -> "PLUSPLUS" [] x = "--" -> "MINUSMINUS" [] x = "->" -> "RARROW"]
Ops == DOMAIN OpName

-----------------------------------------------------------------------------
(* matching (1-based positions; At(s, i) = "" beyond the end) *)
At(s, i) == IF i >= 1 /\ i <= Len(s) THEN s[i] ELSE ""
RECURSIVE RunOf(_, _, _)
RunOf(s, i, set) == IF At(s, i) \in set THEN 1 + RunOf(s, i + 1, set) ELSE 0
RECURSIVE Join(_, _, _)
Join(s, i, n) == IF n = 0 THEN "" ELSE s[i] \o Join(s, i + 1, n - 1)
\* integer suffix: the first alternative of  u?ll | U?LL | [uU][lL] | [lL][uU] | [uU] | [lL]  that matches, or nothing
Suffix(s, i) ==
  LET a == At(s, i)  b == At(s, i + 1)  c == At(s, i + 2) IN
  IF a = "u" /\ b = "l" /\ c = "l" THEN 3 ELSE IF a = "l" /\ b = "l" THEN 2
  ELSE IF a = "U" /\ b = "L" /\ c = "L" THEN 3 ELSE IF a = "L" /\ b = "L" THEN 2
  ELSE IF a \in {"u", "U"} /\ b \in {"l", "L"} THEN 2 ELSE IF a \in {"l", "L"} /\ b \in {"u", "U"} THEN 2
  ELSE IF a \in {"u", "U", "l", "L"} THEN 1 ELSE 0
Exponent(s, i) == IF At(s, i) \notin {"e", "E"} THEN 0
                  ELSE LET sg == IF At(s, i + 1) \in {"-", "+"} THEN 1 ELSE 0  d == RunOf(s, i + 1 + sg, Digit) IN
                       IF d = 0 THEN 0 ELSE 1 + sg + d
FloatLen(s, i) ==
  LET d == RunOf(s, i, Digit)
      f == IF At(s, i + d) = "." THEN RunOf(s, i + d + 1, Digit) ELSE 0
      frac == IF At(s, i + d) = "." /\ f >= 1 THEN d + 1 + f ELSE IF d >= 1 /\ At(s, i + d) = "." THEN d + 1 ELSE 0
      body == IF frac > 0 THEN frac + Exponent(s, i + frac)
              ELSE IF d >= 1 /\ Exponent(s, i + d) > 0 THEN d + Exponent(s, i + d) ELSE 0 IN
  IF body = 0 THEN 0 ELSE body + (IF At(s, i + body) \in {"F", "f", "L", "l"} THEN 1 ELSE 0)
HexLen(s, i) == IF At(s, i) = "0" /\ At(s, i + 1) \in {"x", "X"} /\ RunOf(s, i + 2, HexDigit) >= 1
                THEN 2 + RunOf(s, i + 2, HexDigit) + Suffix(s, i + 2 + RunOf(s, i + 2, HexDigit)) ELSE 0
OctLen(s, i) == IF At(s, i) = "0" THEN 1 + RunOf(s, i + 1, OctDigit) + Suffix(s, i + 1 + RunOf(s, i + 1, OctDigit)) ELSE 0
DecLen(s, i) == LET sg == IF At(s, i) \in {"+", "-"} THEN 1 ELSE 0 IN
                IF At(s, i + sg) \in (Digit \ {"0"}) THEN sg + 1 + RunOf(s, i + sg + 1, Digit) + Suffix(s, i + sg + 1 + RunOf(s, i + sg + 1, Digit)) ELSE 0
OpLen(s, i) == IF Join(s, i, IF i + 2 <= Len(s) THEN 3 ELSE 0) \in Ops /\ i + 2 <= Len(s) THEN 3
               ELSE IF i + 1 <= Len(s) /\ (s[i] \o s[i + 1]) \in Ops THEN 2
               ELSE IF At(s, i) \in Ops THEN 1 ELSE 0

-----------------------------------------------------------------------------
VARIABLES text, pos, line, toks, errs, last
vars == <<text, pos, line, toks, errs, last>>

Texts == UNION {[1..k -> Alphabet] : k \in 0..MaxLen}
Init == /\ text \in Texts \cup {Probes[i] : i \in 1..Len(Probes)}
        /\ pos = 1 /\ line = 1 /\ toks = <<>> /\ errs = <<>> /\ last = "start"
Emit(ty, n) == /\ toks' = Append(toks, [type |-> ty, text |-> Join(text, pos, n), pos |-> pos - 1, line |-> line])
               /\ pos' = pos + n /\ UNCHANGED <<text, line, errs>>
Scan ==
  /\ pos <= Len(text)
  /\ LET c == text[pos] IN
     IF c \in {" ", "\t"} THEN /\ pos' = pos + 1 /\ last' = "SkipBlank" /\ UNCHANGED <<text, line, toks, errs>>
     ELSE IF c = "\n" THEN LET n == RunOf(text, pos, {"\n"}) IN /\ pos' = pos + n /\ line' = line + n /\ last' = "Newlines" /\ UNCHANGED <<text, toks, errs>>
     ELSE IF c \in WordStart THEN
          LET n == 1 + RunOf(text, pos + 1, WordChar)  w == Join(text, pos, n) IN
          /\ Emit(IF w \in Keywords THEN w ELSE "ID", n) /\ last' = "Word"
     ELSE IF FloatLen(text, pos) > 0 THEN Emit("FLOAT_CONST", FloatLen(text, pos)) /\ last' = "Number"
     ELSE IF HexLen(text, pos) > 0 THEN Emit("INT_CONST_HEX", HexLen(text, pos)) /\ last' = "Number"
     ELSE IF OctLen(text, pos) > 0 THEN Emit("INT_CONST_OCT", OctLen(text, pos)) /\ last' = "Number"
     ELSE IF DecLen(text, pos) > 0 THEN Emit("INT_CONST_DEC", DecLen(text, pos)) /\ last' = "Number"
     ELSE IF c = "\"" THEN /\ last' = "unmodelled" /\ pos' = Len(text) + 1 /\ UNCHANGED <<text, line, toks, errs>>     \* string literals: imports only
     ELSE IF OpLen(text, pos) > 0 THEN Emit(OpName[Join(text, pos, OpLen(text, pos))], OpLen(text, pos)) /\ last' = "Operator"
     ELSE IF c \in Literals THEN Emit(c, 1) /\ last' = "Literal"
     ELSE /\ errs' = Append(errs, pos - 1) /\ pos' = pos + 1 /\ last' = "Illegal" /\ UNCHANGED <<text, line, toks>>
Next == Scan
Spec == Init /\ [][Next]_vars

Done == pos > Len(text)
\* ---- properties of the scanner
Covers == \A i \in 1..Len(toks) :
             /\ toks[i].pos + Len(toks[i].text) <= Len(text)
             /\ toks[i].text = Join(text, toks[i].pos + 1, Len(toks[i].text))
             /\ (i > 1 => toks[i - 1].pos + Len(toks[i - 1].text) <= toks[i].pos)
Progress == [][pos' > pos]_vars
Maximal == \A i \in 1..Len(toks) :
             LET nxt == At(text, toks[i].pos + Len(toks[i].text) + 1) IN
             (toks[i].type = "ID" \/ toks[i].type \in Keywords) => nxt \notin WordChar
\* what a text without blanks between an identifier and a following signed number scans as (the named deviation, for the record)
SignedLiteral == \A i \in 1..Len(toks) : (toks[i].type = "INT_CONST_DEC" /\ toks[i].text[1] \in {"+", "-"}) =>
                    (i = 1 \/ toks[i - 1].pos + Len(toks[i - 1].text) <= toks[i].pos)
Report == (Done /\ last # "unmodelled") => PrintT(ToJson([text |-> text, toks |-> toks, errs |-> errs, lines |-> line]))
=============================================================================
