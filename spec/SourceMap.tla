------------------------------ MODULE SourceMap ------------------------------
(***************************************************************************)
(* Source positions (property C20).  A text is a sequence over "c" (any    *)
(* character that is not a line break) and "n" (a line break).  Offsets    *)
(* are 0-based; lines and columns are reported 1-based; a range [b, e) is  *)
(* end-exclusive, so it is printed as                                      *)
(*      l:c1-c2          when b and e lie on the same line                 *)
(*      l1:c1-l2:c2      otherwise                                         *)
(* with c = offset - (offset of the first character of the line) + 1.      *)
(***************************************************************************)
EXTENDS Integers, Sequences, FiniteSets

\* number of line breaks strictly before offset o  =  0-based line of offset o
RECURSIVE BreaksBefore(_, _)
BreaksBefore(text, o) == IF o = 0 THEN 0 ELSE BreaksBefore(text, o - 1) + (IF text[o] = "n" THEN 1 ELSE 0)
LineOf(text, o) == BreaksBefore(text, o)                       \* offsets 0..Len(text)
\* offset of the first character of 0-based line l: just after the l-th line break
RECURSIVE StartFrom(_, _, _)
StartFrom(text, l, o) == IF l = 0 THEN o ELSE
                         IF o >= Len(text) THEN -1 ELSE
                         StartFrom(text, IF text[o + 1] = "n" THEN l - 1 ELSE l, o + 1)
LineStart(text, l) == StartFrom(text, l, 0)
LineCount(text) == BreaksBefore(text, Len(text)) + 1

\* second formulation of LineOf: the line whose start is the greatest start <= o
LineOf2(text, o) == CHOOSE l \in 0..(LineCount(text) - 1) :
                       /\ LineStart(text, l) <= o
                       /\ \A m \in 0..(LineCount(text) - 1) : LineStart(text, m) <= o => m <= l

\* the reported range of [b, e): a record (printed by the implementation as l:c1-c2 or l1:c1-l2:c2)
Range(text, b, e) ==
  LET l1 == LineOf(text, b)  l2 == LineOf(text, e) IN
  [l1 |-> l1 + 1, c1 |-> b - LineStart(text, l1) + 1, l2 |-> l2 + 1, c2 |-> e - LineStart(text, l2) + 1, single |-> l1 = l2]
\* the characters a reported range designates
Designated(text, r) == <<LineStart(text, r.l1 - 1) + r.c1 - 1, LineStart(text, r.l2 - 1) + r.c2 - 1>>
RoundTrip(text, b, e) == Designated(text, Range(text, b, e)) = <<b, e>>

\* the smallest range covering a non-empty set of ranges <<b, e>>
Hull(rs) == <<CHOOSE b \in {r[1] : r \in rs} : \A r \in rs : b <= r[1], CHOOSE e \in {r[2] : r \in rs} : \A r \in rs : r[2] <= e>>

\* layout of a token list: gaps[i] is the separator text before token i (gaps[1] = leading text), lens[i] its length
RECURSIVE Begin(_, _, _)
Begin(gaps, lens, i) == IF i = 1 THEN Len(gaps[1]) ELSE Begin(gaps, lens, i - 1) + lens[i - 1] + Len(gaps[i])
TokenSpan(gaps, lens, i) == <<Begin(gaps, lens, i), Begin(gaps, lens, i) + lens[i]>>
RECURSIVE TextFrom(_, _, _)
TextFrom(gaps, lens, i) == IF i > Len(lens) THEN <<>> ELSE gaps[i] \o [j \in 1..lens[i] |-> "c"] \o TextFrom(gaps, lens, i + 1)
LayoutText(gaps, lens) == TextFrom(gaps, lens, 1)
=============================================================================
