----------------------------- MODULE Leb128Trace -----------------------------
(***************************************************************************)
(* C19, implementation side: every byte string the real writer produced    *)
(* for a value is decoded with the standard decoder the format prescribes  *)
(* at that place (unsigned for counts / sizes / indices, signed for the    *)
(* immediate of i32.const) and must give back the value that was written,  *)
(* consuming the bytes exactly.  Batch (JSON file named by BATCH):         *)
(*   [id, kind : "u" | "s", bits : 32 bits, bytes : Seq(0..255)]           *)
(***************************************************************************)
EXTENDS Leb128, TLC, Json, IOUtils

Batch == JsonDeserialize(IOEnv.BATCH)
VARIABLE cid
Init == cid \in 1..Len(Batch)
Next == UNCHANGED cid
Spec == Init /\ [][Next]_cid
C == Batch[cid]
Verdict == IF C.bytes = <<>> THEN "no bytes written"
           ELSE IF \E j \in 1..Len(C.bytes) : C.bytes[j] \notin 0..255 THEN "not a byte"
           ELSE LET r == IF C.kind = "u" THEN ReadU(C.bytes, 1) ELSE ReadS(C.bytes, 1) IN
                IF ~r.ok THEN r.why
                ELSE IF r.next # Len(C.bytes) + 1 THEN "trailing bytes after the number"
                ELSE IF r.bits # C.bits THEN "decodes to a different value"
                ELSE "ok"
Report == PrintT(ToJson([id |-> C.id, verdict |-> Verdict]))
=============================================================================
