---------------------------- MODULE IRWellFormed ----------------------------
(***************************************************************************)
(* Well-formedness of compiled IR functions (property C14).                *)
(*                                                                         *)
(* Data: a batch of projected functions (harness/irproj.py), each with the *)
(* function table of its linked program.  For every function TLC checks    *)
(*  - static invariants: value references unique within the function;      *)
(*    every operand is a reference of a constant of the function or of an  *)
(*    instruction still present; branches name blocks of the function,     *)
(*    two targets iff conditional; calls name a function of the program    *)
(*    with the same number of arguments;                                   *)
(*  - definition before use ON EVERY PATH: the state is (block, index,     *)
(*    set of references defined so far); Step executes one instruction     *)
(*    abstractly, a conditional branch is a nondeterministic choice of     *)
(*    either target, so TLC explores all control-flow paths, including the *)
(*    ones no input happens to take.                                       *)
(* One JSON line per function with the static verdicts, one more line for  *)
(* every (function, instruction) at which an operand can be undefined.     *)
(***************************************************************************)
EXTENDS Integers, Sequences, TLC, Json, IOUtils, FiniteSets

Batch == JsonDeserialize(IOEnv.BATCH)      \* Seq([id, fn, table : Seq([name, argc])])
VARIABLES cid, b, i, defined, bad
vars == <<cid, b, i, defined, bad>>

F == Batch[cid].fn
Blocks == F.blocks
Range(s) == {s[k] : k \in 1..Len(s)}
ConstRefs == {F.consts[k].ref : k \in 1..Len(F.consts)}
BlockRefs == {Blocks[k].ref : k \in 1..Len(Blocks)}
AllIns == UNION {{<<k, j>> : j \in 1..Len(Blocks[k].ins)} : k \in 1..Len(Blocks)}
InsAt(p) == Blocks[p[1]].ins[p[2]]
InsRefs == {InsAt(p).ref : p \in AllIns}
BlockIdx(r) == CHOOSE k \in 1..Len(Blocks) : Blocks[k].ref = r
Callees == Batch[cid].table
\* instructions that leave a value behind (stores, branches and returns do not)
NoResult == {"STORE", "STORE_ARRAY", "STORE_MEMBER", "BRANCH", "RETURN"}
Defines(ins) == ins.op \notin NoResult
ValueRefs == {InsAt(p).ref : p \in {q \in AllIns : Defines(InsAt(q))}}

\* ---- static invariants
UniqueRefs == /\ \A p, q \in AllIns : InsAt(p).ref = InsAt(q).ref => p = q
              /\ InsRefs \cap ConstRefs = {} /\ InsRefs \cap BlockRefs = {} /\ ConstRefs \cap BlockRefs = {}
              /\ Cardinality(ConstRefs) = Len(F.consts) /\ Cardinality(BlockRefs) = Len(Blocks)
              /\ \A r \in InsRefs \cup ConstRefs \cup BlockRefs : r >= 0
OperandsExist == \A p \in AllIns : \A u \in Range(InsAt(p).uses) : u \in ConstRefs \cup ValueRefs
TargetsExist == \A p \in AllIns : InsAt(p).op = "BRANCH" =>
                   /\ Range(InsAt(p).tgt) \subseteq BlockRefs
                   /\ Len(InsAt(p).tgt) = (IF InsAt(p).cond THEN 2 ELSE 1)
CallsOk == \A p \in AllIns : InsAt(p).op = "CALL" =>
              \E k \in 1..Len(Callees) : Callees[k].name = InsAt(p).callee /\ Callees[k].argc = Len(InsAt(p).uses)
FirstBadOperand == IF OperandsExist THEN <<>> ELSE
                   LET p == CHOOSE q \in AllIns : \E u \in Range(InsAt(q).uses) : u \notin ConstRefs \cup ValueRefs IN
                   <<p[1], p[2], InsAt(p).op, InsAt(p).uses>>

\* ---- all paths
Init == /\ cid \in 1..Len(Batch) /\ b = 1 /\ i = 1 /\ defined = {} /\ bad = <<>>
AtEnd == b > Len(Blocks)
Advance(nb, ni, d) == /\ b' = nb /\ i' = ni /\ defined' = d /\ UNCHANGED <<cid, bad>>
Step ==
  /\ ~AtEnd /\ bad = <<>>
  /\ IF i > Len(Blocks[b].ins) THEN Advance(b + 1, 1, defined)                      \* fall through to the next block
     ELSE LET ins == Blocks[b].ins[i]
              missing == {u \in Range(ins.uses) : u \notin defined \cup ConstRefs} IN
          IF missing # {} THEN /\ bad' = <<b, i, ins.op, ins.ref, missing>> /\ UNCHANGED <<cid, b, i, defined>>
          ELSE LET d2 == IF Defines(ins) THEN defined \cup {ins.ref} ELSE defined IN
               IF ins.op = "RETURN" THEN Advance(Len(Blocks) + 1, 1, d2)
               ELSE IF ins.op = "BRANCH" THEN
                    (IF Range(ins.tgt) \subseteq BlockRefs /\ ins.tgt # <<>>
                     THEN \E t \in Range(ins.tgt) : Advance(BlockIdx(t), 1, d2)
                     ELSE Advance(Len(Blocks) + 1, 1, d2))                          \* reported by TargetsExist
               ELSE Advance(b, i + 1, d2)
Next == Step
Spec == Init /\ [][Next]_vars

\* State-space reduction (VIEW): what happens from (b, i) on depends only on the defined references that can
\* still be used - those used in a block other than the one that defines them, and those of the current block.
\* Two paths that agree on these reach the same verdicts, so TLC may identify them.
\* (F.cross - the operands used outside their defining block - and Blocks[k].refs are computed by the projection;
\*  an over-approximation would still be sound, an under-approximation is excluded by CrossComplete below.)
CrossUsed == Range(F.cross)
LocalRefs(k) == IF k > Len(Blocks) THEN {} ELSE Range(Blocks[k].refs)
View == <<cid, b, i, defined \cap (CrossUsed \cup LocalRefs(b)), bad>>
CrossComplete == (b = 1 /\ i = 1 /\ defined = {}) =>
                    \A p \in AllIns : \A u \in Range(InsAt(p).uses) : u \in LocalRefs(p[1]) \cup CrossUsed \cup ConstRefs

\* the set of defined references only grows along a path
Monotone == [][defined \subseteq defined']_vars
Report == /\ (b = 1 /\ i = 1 /\ defined = {} /\ bad = <<>>) =>
               PrintT(ToJson([id |-> Batch[cid].id, kind |-> "static", unique |-> UniqueRefs, operands |-> OperandsExist,
                              targets |-> TargetsExist, calls |-> CallsOk, first |-> FirstBadOperand]))
          /\ (bad # <<>>) => PrintT(ToJson([id |-> Batch[cid].id, kind |-> "undef", at |-> bad]))
=============================================================================
