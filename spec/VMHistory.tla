------------------------------ MODULE VMHistory ------------------------------
(***************************************************************************)
(* Histories of host operations on one or several VMs created from the     *)
(* same linked program (property C15).                                     *)
(*                                                                         *)
(*   vmg[v]   the global variables of VM v, as the host can observe them   *)
(*   hist     the operations performed so far, each with the result the    *)
(*            language prescribes                                          *)
(*   cur      the VM and operation of the invocation that is in progress   *)
(* Host actions:  SetG(v, o)   SetGlobal on VM v                           *)
(*                Start(v, o)  begin Invoke on VM v: NslSem is started on  *)
(*                             the globals of v with fresh locals          *)
(*                Run          one step of the language semantics (NslSem) *)
(*                Finish       the invocation ends: its final globals      *)
(*                             become the globals of v, its value the      *)
(*                             result of the operation                     *)
(* so the whole history behaves like the reference state machine of the    *)
(* source program.  TLC explores EVERY history over the operation alphabet *)
(* up to Depth operations (and random longer ones in simulation mode) and  *)
(* prints each complete history; the driver replays it on real             *)
(* VirtualMachine objects and compares after every operation.              *)
(* The library (program, operation alphabet, initial globals, number of    *)
(* VMs) is read from the JSON file named by the environment variable BATCH.*)
(***************************************************************************)
EXTENDS Integers, Sequences, FiniteSets, TLC, Json, IOUtils

CONSTANTS Depth

Lib == JsonDeserialize(IOEnv.BATCH)      \* [prog, ops : Seq(op), init : [g |-> value], vms : Nat]
VMs == 1..Lib.vms
Ops == {Lib.ops[i] : i \in 1..Len(Lib.ops)}

VARIABLES hist, vmg, cur
VARIABLES cid, ctl, vals, frames, globals, status, ret, steps, calls
CaseOf(c) == c                            \* the case id IS the case: [prog, entry, args, globals]
CaseIds == {}
Fuel == 5000
INSTANCE NslSem

hvars == <<hist, vmg, cur>>
allvars == <<hist, vmg, cur, cid, ctl, vals, frames, globals, status, ret, steps, calls>>
NoOp == [k |-> "none"]
IdleCase == [prog |-> Lib.prog, entry |-> "", args |-> <<>>, globals |-> <<>>]

HInit == /\ hist = <<>> /\ vmg = [v \in VMs |-> Lib.init] /\ cur = [vm |-> 0, op |-> NoOp]
         /\ cid = IdleCase /\ ctl = <<>> /\ vals = <<>> /\ frames = <<>> /\ globals = <<>>
         /\ status = "idle" /\ ret = VOID /\ steps = 0 /\ calls = <<>>

SetG(v, o) == /\ status = "idle" /\ Len(hist) < Depth /\ o.k = "set"
              /\ vmg' = [vmg EXCEPT ![v][o.g] = o.v]
              /\ hist' = Append(hist, [vm |-> v, op |-> o, st |-> "done", res |-> VOID, after |-> vmg'[v]])
              /\ UNCHANGED <<cur, cid, ctl, vals, frames, globals, status, ret, steps, calls>>

Start(v, o) == /\ status = "idle" /\ Len(hist) < Depth /\ o.k = "invoke"
               /\ LET c == [prog |-> Lib.prog, entry |-> o.f, args |-> o.args, globals |-> vmg[v]] IN
                  /\ cid' = c /\ frames' = InitFrames(c) /\ ctl' = InitCtl(c) /\ globals' = vmg[v]
               /\ vals' = <<>> /\ status' = "run" /\ ret' = VOID /\ steps' = 0 /\ calls' = <<>>
               /\ cur' = [vm |-> v, op |-> o]
               /\ UNCHANGED <<hist, vmg>>

Run == /\ status = "run" /\ Step /\ UNCHANGED hvars

Finish == /\ status \notin {"run", "idle"}
          /\ vmg' = [vmg EXCEPT ![cur.vm] = globals]
          /\ hist' = Append(hist, [vm |-> cur.vm, op |-> cur.op, st |-> status, res |-> ret, after |-> globals])
          /\ cur' = [vm |-> 0, op |-> NoOp]
          /\ cid' = IdleCase /\ ctl' = <<>> /\ vals' = <<>> /\ frames' = <<>> /\ globals' = <<>>
          /\ status' = "idle" /\ ret' = VOID /\ steps' = 0 /\ calls' = <<>>

HNext == \/ \E v \in VMs, o \in Ops : SetG(v, o) \/ Start(v, o)
         \/ Run
         \/ Finish
HSpec == HInit /\ [][HNext]_allvars

-----------------------------------------------------------------------------
\* an operation on one VM never changes the globals of another VM
Isolation == [][\A v \in VMs : (vmg'[v] # vmg[v]) => (\/ (cur.vm = v /\ status \notin {"run", "idle"})
                                                        \/ (status = "idle" /\ Len(hist') = Len(hist) + 1 /\ hist'[Len(hist')].vm = v))]_allvars
\* globals change only at the end of an invocation or by SetGlobal; an invocation starts from the VM's globals
Persistence == [][(status = "idle" /\ status' = "run") => globals' = vmg[cur'.vm]]_allvars
\* every invocation starts with fresh locals: exactly one frame holding exactly the parameters
FreshLocals == [][(status = "idle" /\ status' = "run") =>
                    /\ Len(frames') = 1
                    /\ DOMAIN frames'[1].vars = {Lib.prog.funcs[frames'[1].fn].params[j].n : j \in 1..Len(Lib.prog.funcs[frames'[1].fn].params)}]_allvars
NamesKept == \A v \in VMs : DOMAIN vmg[v] = DOMAIN Lib.init
Report == (status = "idle" /\ Len(hist) = Depth) => PrintT(ToJson([hist |-> hist]))
=============================================================================
