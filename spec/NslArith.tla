------------------------------ MODULE NslArith ------------------------------
(***************************************************************************)
(* Value algebra of NSL's scalars, shared by the source semantics          *)
(* (NslSem), the IR machine (IRMachine) and the enumeration models.        *)
(*                                                                         *)
(* Scalar values are tagged records so that int 5, uint 5 and float 5.0    *)
(* differ:                                                                 *)
(*   [t |-> "int",   v |-> 5]                                              *)
(*   [t |-> "uint",  v |-> 5]                                              *)
(*   [t |-> "float", n |-> 5, e |-> 0]      meaning n * 2^-e (normalised)  *)
(* TLC integers are 32 bit and TLC aborts on overflow, so every operation  *)
(* tests operand magnitudes first and yields OOD ("outside the property's  *)
(* stated domain") instead of computing.  Floats are exact dyadic          *)
(* rationals; an operation whose exact result is not such a number is OOD. *)
(* On these values Python doubles, wasm f32 and this module agree exactly. *)
(***************************************************************************)
EXTENDS Integers, Sequences

MaxI == 1073741823            \* 2^30 - 1: magnitude bound for every integer the spec computes
MaxE == 20                    \* largest binary exponent of a float value
Abs(x) == IF x < 0 THEN -x ELSE x
RECURSIVE Pow2(_)
Pow2(k) == IF k = 0 THEN 1 ELSE 2 * Pow2(k - 1)

IntV(v) == [t |-> "int", v |-> v]
UIntV(v) == [t |-> "uint", v |-> v]
RECURSIVE Norm(_, _)
Norm(n, e) == IF e > 0 /\ n % 2 = 0 THEN Norm(n \div 2, e - 1) ELSE [t |-> "float", n |-> n, e |-> e]
FloatV(n, e) == Norm(n, e)
OOD == [t |-> "ood"]
DIVZERO == [t |-> "divzero"]
OOB == [t |-> "oob"]
ILL == [t |-> "ill"]           \* ill-typed / outside what the specification defines
IsOOD(x) == x.t = "ood"
IsBad(x) == x.t \in {"ood", "divzero", "oob", "ill"}
IsI(x) == x.t \in {"int", "uint"}
IsNum(x) == x.t \in {"int", "uint", "float"}
ToF(x) == IF IsI(x) THEN [t |-> "float", n |-> x.v, e |-> 0] ELSE x
MulOk(a, b) == b = 0 \/ Abs(a) <= MaxI \div Abs(b)
TruncDiv(a, b) == LET q == Abs(a) \div Abs(b) IN IF (a < 0) = (b < 0) THEN q ELSE -q
IsPow2(n) == n > 0 /\ \E k \in 0..30 : Pow2(k) = n
Log2(n) == CHOOSE k \in 0..30 : Pow2(k) = n

\* bring two floats to a common exponent; not ok if the scaled numerators get too big
Align(a, b) == LET m == IF a.e > b.e THEN a.e ELSE b.e
                   sa == Pow2(m - a.e)  sb == Pow2(m - b.e) IN
               IF MulOk(a.n, sa) /\ MulOk(b.n, sb) THEN [ok |-> TRUE, x |-> a.n * sa, y |-> b.n * sb, e |-> m]
               ELSE [ok |-> FALSE]
Bv(c) == IntV(IF c THEN 1 ELSE 0)
Truth(x) == IF IsI(x) THEN x.v # 0 ELSE x.n # 0

CmpOps == {"<", "<=", ">", ">=", "==", "!="}
LogOps == {"&&", "||"}
AriOps == {"+", "-", "*", "/", "%"}
BinOps == CmpOps \cup LogOps \cup AriOps

\* a op b on two floats; comparisons and logical operators give an int 0/1
FloatOp(op, a, b) ==
  IF op \in {"+", "-"} \cup CmpOps THEN
     LET al == Align(a, b) IN
     IF ~al.ok THEN OOD ELSE
     CASE op = "+" -> IF Abs(al.x + al.y) > MaxI THEN OOD ELSE Norm(al.x + al.y, al.e)
       [] op = "-" -> IF Abs(al.x - al.y) > MaxI THEN OOD ELSE Norm(al.x - al.y, al.e)
       [] op = "<" -> Bv(al.x < al.y)   [] op = "<=" -> Bv(al.x <= al.y)
       [] op = ">" -> Bv(al.x > al.y)   [] op = ">=" -> Bv(al.x >= al.y)
       [] op = "==" -> Bv(al.x = al.y)  [] op = "!=" -> Bv(al.x # al.y)
  ELSE IF op = "*" THEN
     IF MulOk(a.n, b.n) /\ a.e + b.e <= MaxE THEN Norm(a.n * b.n, a.e + b.e) ELSE OOD
  ELSE IF op = "/" THEN
     IF b.n = 0 THEN DIVZERO
     ELSE IF ~IsPow2(Abs(b.n)) THEN OOD           \* exact result not dyadic: outside the exact domain
     ELSE LET k == Log2(Abs(b.n))                  \* a / (s*2^k * 2^-be) = s*a.n * 2^be / 2^(ae + k)
              s == IF b.n < 0 THEN -1 ELSE 1
              num == a.n * s  sh == Pow2(b.e) IN
          IF ~MulOk(num, sh) \/ a.e + k > MaxE + 30 THEN OOD
          ELSE LET r == Norm(num * sh, a.e + k) IN IF r.e > MaxE THEN OOD ELSE r
  ELSE IF op = "&&" THEN Bv(a.n # 0 /\ b.n # 0)
  ELSE IF op = "||" THEN Bv(a.n # 0 \/ b.n # 0)
  ELSE OOD                                         \* % on floats: no property fixes it

IntOp(op, a, b) ==
  CASE op = "+" -> IF Abs(a + b) > MaxI THEN OOD ELSE IntV(a + b)
    [] op = "-" -> IF Abs(a - b) > MaxI THEN OOD ELSE IntV(a - b)
    [] op = "*" -> IF MulOk(a, b) THEN IntV(a * b) ELSE OOD
    [] op = "/" -> IF b = 0 THEN DIVZERO ELSE IntV(TruncDiv(a, b))
    [] op = "%" -> IF b = 0 THEN DIVZERO ELSE IF a < 0 \/ b < 0 THEN OOD ELSE IntV(a % b)
    [] op = "<" -> Bv(a < b)  [] op = "<=" -> Bv(a <= b) [] op = ">" -> Bv(a > b) [] op = ">=" -> Bv(a >= b)
    [] op = "==" -> Bv(a = b) [] op = "!=" -> Bv(a # b)
    [] op = "&&" -> Bv(a # 0 /\ b # 0) [] op = "||" -> Bv(a # 0 \/ b # 0)

\* Conversion of a scalar value to a scalar kind ("int" | "uint" | "float").
\* float -> integer drops the fraction; for a positive value every convention (truncation toward zero, floor) gives the
\* same integer, for a negative non-integral value no property fixes the choice: OOD.  uint is modelled
\* as the non-negative integers (a negative value has no uint counterpart any property fixes: OOD).
ConvK(k, x) == IF IsBad(x) THEN x
               ELSE IF k = "float" THEN ToF(x)
               ELSE IF ~IsI(x) /\ x.e # 0 /\ x.n < 0 THEN OOD
               ELSE LET i == IF IsI(x) THEN x.v ELSE IF x.e = 0 THEN x.n ELSE x.n \div Pow2(x.e) IN
                    IF Abs(i) > MaxI THEN OOD
                    ELSE IF k = "uint" THEN (IF i < 0 THEN OOD ELSE UIntV(i)) ELSE IntV(i)

\* Conversion where the language has no conversion written or inserted: a value stored into a variable of another kind
\* (initialiser, assignment, return value).  No property says what happens to a fraction there: OOD.
ConvA(k, x) == IF IsBad(x) THEN x ELSE IF k # "float" /\ ~IsI(x) /\ x.e # 0 THEN OOD ELSE ConvK(k, x)

\* a op b where the operands are converted to kind ok and the result has kind rk
\* (ok, rk come from NslTypes!ResolveBinary)
ScalarOp(op, ok, rk, a, b) ==
  LET x == ConvK(ok, a)  y == ConvK(ok, b) IN
  IF IsBad(x) THEN x ELSE IF IsBad(y) THEN y ELSE
  LET r == IF ok = "float" THEN FloatOp(op, x, y) ELSE IntOp(op, x.v, y.v) IN
  IF IsBad(r) THEN r ELSE ConvK(rk, r)

\* dynamic version used where no static types are needed (all-int contexts)
BinOp(op, a, b) == IF a.t = "int" /\ b.t = "int" THEN IntOp(op, a.v, b.v) ELSE FloatOp(op, ToF(a), ToF(b))

NumEq(a, b) == \/ a = b
               \/ (IsNum(a) /\ IsNum(b) /\ ToF(a) = ToF(b))
=============================================================================
