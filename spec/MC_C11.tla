------------------------------- MODULE MC_C11 -------------------------------
(***************************************************************************)
(* C11: every statement tree to a depth, with break / continue / plain     *)
(* statements at the leaves, in every position (inside loops, after loops, *)
(* in branches outside any loop).  For each tree TLC                       *)
(*   - builds the program (the rendering is part of the specification),    *)
(*   - decides acceptance with NslStatic!FlowOk (and checks it against the *)
(*     path-based formulation FlowOk2),                                    *)
(*   - runs NslSem on it for two inputs: which loop a break leaves and a   *)
(*     continue re-tests is decided by the language semantics, and an      *)
(*     accepted program never gets stuck on a jump.                        *)
(* The driver prints each program as NSL text, compiles it with the real   *)
(* compiler, compares accept/reject and, for accepted programs, the value  *)
(* the real VM returns.                                                    *)
(***************************************************************************)
EXTENDS Integers, Sequences, FiniteSets, TLC, Json, NslStatic

CONSTANTS Depth

Leaves == {[k |-> "L", x |-> x] : x \in {"p", "b", "c"}}
Wrappers == {"block", "if", "then", "else", "for", "while", "do"}
RECURSIVE Trees(_)
Trees(d) == IF d = 0 THEN Leaves
            ELSE LET sub == Trees(d - 1) IN
                 Leaves \cup {[k |-> "W", w |-> w, t |-> t] : w \in Wrappers, t \in sub}
                        \cup {[k |-> "S", a |-> l, b |-> t] : l \in Leaves, t \in sub}
                        \cup {[k |-> "S", a |-> t, b |-> l] : l \in Leaves, t \in sub}
                        \* a return statement in front: what follows it in the block is still part of the program
                        \cup {[k |-> "S", a |-> [k |-> "L", x |-> "r"], b |-> t] : t \in sub}

\* ---- rendering a tree as a program (NslSem's program format)
TyInt == [k |-> "int"]
None == [k |-> "none"]
Lit(v) == [k |-> "lit", t |-> "int", v |-> v]
V(n) == [k |-> "var", n |-> n]
Bop(op, l, r) == [k |-> "bin", op |-> op, l |-> l, r |-> r]
Block(ss) == [k |-> "block", ss |-> ss]
Decl(n, init) == [k |-> "decl", n |-> n, t |-> TyInt, init |-> init]
ExprS(e) == [k |-> "expr", e |-> e]
\* a plain statement leaves a trace of its position in t
Plain(id) == ExprS([k |-> "asg", lv |-> V("t"),
                    e |-> Bop("%", Bop("+", Bop("*", V("t"), Lit(7)), Lit(id)), Lit(1000003))])
Cond == Bop("==", Bop("%", V("t"), Lit(2)), Lit(0))
IncS(n) == ExprS([k |-> "inc", op |-> "+", pre |-> FALSE, n |-> n])
Less2(n) == Bop("<", V(n), Lit(2))

RECURSIVE Stmts(_, _)
Stmts(tr, id) ==
  CASE tr.k = "L" -> (CASE tr.x = "p" -> <<Plain(id)>> [] tr.x = "b" -> <<[k |-> "break"]>> [] tr.x = "c" -> <<[k |-> "continue"]>>
                         [] tr.x = "r" -> <<[k |-> "ret", e |-> V("t")]>>)
    [] tr.k = "S" -> Stmts(tr.a, id * 8 + 1) \o Stmts(tr.b, id * 8 + 2)
    [] tr.k = "W" ->
         LET inner == Stmts(tr.t, id * 8 + 3)
             blk == Block(inner)
             bare == IF tr.t.k = "L" /\ id % 2 = 1 THEN inner[1] ELSE blk     \* un-braced single statement bodies too
             i == "i" \o ToString(id)
         IN CASE tr.w = "block" -> <<blk>>
              [] tr.w = "if" -> <<[k |-> "if", c |-> Cond, t |-> bare, e |-> None]>>
              [] tr.w = "then" -> <<[k |-> "if", c |-> Cond, t |-> bare, e |-> Block(<<Plain(id * 8 + 4)>>)]>>
              [] tr.w = "else" -> <<[k |-> "if", c |-> Cond, t |-> Block(<<Plain(id * 8 + 4)>>), e |-> bare]>>
              [] tr.w = "for" -> IF tr.t.k = "L" /\ tr.t.x = "b" /\ id % 3 = 0
                                 THEN <<[k |-> "for", init |-> Decl(i, Lit(0)), c |-> None,                        \* for (int i = 0; ; ++i) break;
                                         inc |-> [k |-> "inc", op |-> "+", pre |-> TRUE, n |-> i], b |-> bare]>>
                                 ELSE IF id % 3 = 1
                                 THEN <<[k |-> "for", init |-> Decl(i, Lit(0)), c |-> Less2(i), inc |-> None,             \* for (int i = 0; i < 2; ) { i++; ... }
                                         b |-> Block(<<IncS(i)>> \o inner)]>>
                                 ELSE <<[k |-> "for", init |-> Decl(i, Lit(0)), c |-> Less2(i),
                                         inc |-> [k |-> "inc", op |-> "+", pre |-> TRUE, n |-> i], b |-> bare]>>
              [] tr.w = "while" -> IF tr.t.k = "L" /\ tr.t.x = "b" /\ id % 2 = 1
                                   THEN <<Block(<<Decl(i, Lit(0)), [k |-> "while", c |-> Less2(i), b |-> inner[1]]>>)>>      \* while (c) break;
                                   ELSE <<Block(<<Decl(i, Lit(0)),
                                            [k |-> "while", c |-> Less2(i), b |-> Block(<<IncS(i)>> \o inner)]>>)>>
              [] tr.w = "do" -> IF id % 3 = 1
                                THEN <<[k |-> "do", b |-> Block(inner), c |-> Lit(0)]>>                                \* do { ... } while (0): runs once
                                ELSE <<Block(<<Decl(i, Lit(0)),
                                         [k |-> "do", b |-> Block(<<IncS(i)>> \o inner), c |-> Less2(i)]>>)>>
Program(tr) ==
  [globals |-> <<>>, structs |-> <<>>,
   funcs |-> <<[name |-> "f", exported |-> TRUE, params |-> <<[n |-> "a", t |-> TyInt]>>, ret |-> TyInt,
                body |-> Block(<<Decl("t", V("a"))>> \o Stmts(tr, 1) \o <<[k |-> "ret", e |-> V("t")]>>)]>>]

\* ---- the cases: the case id carries the rendered program so that it is built once
CaseIds == {[tree |-> tr, a |-> a, prog |-> Program(tr)] : tr \in Trees(Depth), a \in {2, 3}}
CaseOf(c) == [prog |-> c.prog, entry |-> "f", args |-> [a |-> [t |-> "int", v |-> c.a]], globals |-> <<>>]
Fuel == 20000

VARIABLES cid, ctl, vals, frames, globals, status, ret, steps, calls
INSTANCE NslSem

Init == SInit
Next == SNext
Spec == SSpec

Accepted == FlowOk(cid.prog)
\* the two formulations of the rule agree on every enumerated tree
FormulationsAgree == Accepted = FlowOk2(cid.prog)
\* an accepted program never gets stuck on a jump, and always finishes (all loops are bounded)
AcceptedRuns == (Accepted /\ status # "run") => status = "done"
\* a rejected program that reaches its misplaced jump is stuck
RejectedStuck == status = "ill" => ~Accepted
Report == status # "run" =>
   PrintT(ToJson([key |-> ToString(cid.tree), a |-> cid.a, ok |-> Accepted, status |-> status, ret |-> ret, steps |-> steps, globals |-> globals,
                  prog |-> IF cid.a = 2 THEN cid.prog ELSE None]))
=============================================================================
