------------------------------- MODULE MC_C12 -------------------------------
(***************************************************************************)
(* C12: every scope structure to a size - a function with a parameter p    *)
(* and a global g, bodies built from declarations D(n) and uses U(n) of    *)
(* the names p, g, x, y inside blocks, if, if/else, while, do and for      *)
(* (whose header declares x, y or p).  For each program TLC                *)
(*   - decides acceptance with NslStatic!NamesOk (checked against the      *)
(*     site-by-site formulation NamesOk2),                                 *)
(*   - runs NslSem: every use U(n) increments n and folds it into the      *)
(*     result, so the value depends on which declaration each use binds to.*)
(* The driver compiles each program with the real compiler (accept/reject) *)
(* and runs the accepted ones on the real VM (value and final global).     *)
(***************************************************************************)
EXTENDS Integers, Sequences, FiniteSets, TLC, Json, NslStatic

CONSTANTS Size            \* 1: one item plus optionally a leaf before/after; 2: also one more nesting level

Names == {"p", "g", "x", "y"}
\* D(n): declaration with initialiser, U(n): use, D0 (in SIB / DC items): a declaration of x without initialiser (reads as zero wherever it executes)
Leaf == {[k |-> "D", n |-> n] : n \in Names} \cup {[k |-> "U", n |-> n] : n \in Names}
Dx == [k |-> "D", n |-> "x"]
D0x == [k |-> "D0", n |-> "x"]
Ux == [k |-> "U", n |-> "x"]
Seq0 == {<<a>> : a \in Leaf} \cup {<<a, b>> : a \in Leaf, b \in Leaf}
Kinds == {"block", "if", "while", "do"}
Item1 == Leaf \cup {[k |-> "W", w |-> w, s |-> s] : w \in Kinds, s \in Seq0}
              \cup {[k |-> "F", h |-> h, s |-> s] : h \in {"x", "y", "p"}, s \in Seq0}
              \cup {[k |-> "IE", a |-> <<a>>, b |-> <<b>>] : a \in Leaf, b \in Leaf}
              \* a declaration that is itself the (un-braced) branch or loop body: the branch / loop is still its scope
              \cup {[k |-> "WB", w |-> w, n |-> n] : w \in {"if", "else", "for", "while"}, n \in Names}
              \* two sibling scopes that use the same name: the second one's variable is its own
              \cup {[k |-> "SIB", w1 |-> w1, w2 |-> w2, a |-> a, b |-> b] : w1 \in {"block", "if", "do"}, w2 \in {"block", "if", "do"},
                       a \in {<<Dx, Ux>>, <<Dx>>}, b \in {<<D0x, Ux>>, <<D0x>>, <<Dx, Ux>>, <<Ux>>}}
              \* a do loop whose condition names a variable: the body's declarations are not visible in the condition
              \cup {[k |-> "DC", s |-> s, n |-> n] : s \in {<<Dx>>, <<Dx, Ux>>, <<D0x>>, <<[k |-> "U", n |-> "g"]>>, <<[k |-> "D", n |-> "y"]>>}, n \in {"x", "y", "g"}}
Body1 == {<<i>> : i \in Item1} \cup {<<l, i>> : l \in Leaf, i \in Item1 \ Leaf} \cup {<<i, l>> : l \in Leaf, i \in Item1 \ Leaf}
\* one more level: a declaration, then a wrapper (or for header) around a two-level body over the names x, g only
Small == {[k |-> "D", n |-> "x"], [k |-> "U", n |-> "x"], [k |-> "U", n |-> "g"], [k |-> "D", n |-> "g"]}
SeqS == {<<a>> : a \in Small} \cup {<<a, b>> : a \in Small, b \in Small}
Item1S == {[k |-> "W", w |-> w, s |-> s] : w \in Kinds, s \in SeqS} \cup {[k |-> "F", h |-> h, s |-> s] : h \in {"x", "y"}, s \in SeqS}
Body2 == {<<l>> \o <<[k |-> "W", w |-> w, s |-> <<i>> \o t]>> \o u :
             l \in {[k |-> "D", n |-> "x"], [k |-> "D", n |-> "y"]}, w \in Kinds, i \in Item1S,
             t \in {<<>>, <<[k |-> "U", n |-> "x"]>>, <<[k |-> "D", n |-> "x"]>>},
             u \in {<<>>, <<[k |-> "U", n |-> "x"]>>, <<[k |-> "D", n |-> "y"]>>}}
Bodies == IF Size = 1 THEN Body1 ELSE Body1 \cup Body2

\* ---- rendering (NslSem's program format)
TyInt == [k |-> "int"]
None == [k |-> "none"]
Lit(v) == [k |-> "lit", t |-> "int", v |-> v]
V(n) == [k |-> "var", n |-> n]
Bop(op, l, r) == [k |-> "bin", op |-> op, l |-> l, r |-> r]
Block(ss) == [k |-> "block", ss |-> ss]
Decl(n, init) == [k |-> "decl", n |-> n, t |-> TyInt, init |-> init]
ExprS(e) == [k |-> "expr", e |-> e]
Asg(n, e) == ExprS([k |-> "asg", lv |-> V(n), e |-> e])
Cond == Bop("==", Bop("%", V("t"), Lit(2)), Lit(0))
IncS(n) == ExprS([k |-> "inc", op |-> "+", pre |-> FALSE, n |-> n])

RECURSIVE Item(_, _), Items(_, _, _)
Items(s, i, id) == IF i > Len(s) THEN <<>> ELSE Item(s[i], id * 8 + i) \o Items(s, i + 1, id)
Item(it, id) ==
  CASE it.k = "D" -> <<Decl(it.n, Lit(20 + (id % 53)))>>
    [] it.k = "D0" -> <<Decl(it.n, None)>>
    [] it.k = "SIB" ->
         LET W1(w, body) == CASE w = "block" -> Block(body)
                              [] w = "if" -> [k |-> "if", c |-> Bop("<", Lit(0), Lit(1)), t |-> Block(body), e |-> None]
                              [] w = "do" -> [k |-> "do", b |-> Block(body), c |-> Bop(">", Lit(0), Lit(1))] IN
         <<W1(it.w1, Items(it.a, 1, id * 8 + 5)), W1(it.w2, Items(it.b, 1, id * 8 + 6))>>
    [] it.k = "DC" -> <<[k |-> "do", b |-> Block(Items(it.s, 1, id)), c |-> Bop(">", V(it.n), Lit(1000))]>>
    [] it.k = "U" -> <<Asg(it.n, Bop("+", V(it.n), Lit(1))),
                       Asg("t", Bop("%", Bop("+", Bop("*", V("t"), Lit(7)), V(it.n)), Lit(1000003)))>>
    [] it.k = "W" ->
         LET body == Items(it.s, 1, id)  w == "w" \o ToString(id) IN
         (CASE it.w = "block" -> <<Block(body)>>
            [] it.w = "if" -> <<[k |-> "if", c |-> Cond, t |-> Block(body), e |-> None]>>
            [] it.w = "while" -> <<Block(<<Decl(w, Lit(0)), [k |-> "while", c |-> Bop("<", V(w), Lit(1)), b |-> Block(<<IncS(w)>> \o body)]>>)>>
            [] it.w = "do" -> <<[k |-> "do", b |-> Block(body), c |-> Bop(">", Lit(0), Lit(1))]>>)
    [] it.k = "F" -> <<[k |-> "for", init |-> Decl(it.h, Lit(0)), c |-> Bop("<", V(it.h), Lit(2)),
                        inc |-> [k |-> "inc", op |-> "+", pre |-> TRUE, n |-> it.h], b |-> Block(Items(it.s, 1, id))]>>
    [] it.k = "WB" ->
         LET d == Decl(it.n, Lit(20 + (id % 53)))
             plain == Block(<<Asg("t", Bop("%", Bop("+", Bop("*", V("t"), Lit(7)), Lit(3)), Lit(1000003)))>>) IN
         (CASE it.w = "if" -> <<[k |-> "if", c |-> Cond, t |-> d, e |-> None]>>
            [] it.w = "else" -> <<[k |-> "if", c |-> Cond, t |-> plain, e |-> d]>>
            [] it.w = "for" -> <<[k |-> "for", init |-> Decl("y", Lit(0)), c |-> Bop("<", V("y"), Lit(2)),
                                  inc |-> [k |-> "inc", op |-> "+", pre |-> TRUE, n |-> "y"], b |-> d]>>
            [] it.w = "while" -> <<[k |-> "while", c |-> Bop("<", V("t"), Lit(0)), b |-> d]>>)
    [] it.k = "IE" -><<[k |-> "if", c |-> Cond, t |-> Block(Items(it.a, 1, id * 8 + 5)), e |-> Block(Items(it.b, 1, id * 8 + 6))]>>
Program(body) ==
  [globals |-> <<[n |-> "g", t |-> TyInt]>>, structs |-> <<>>,
   funcs |-> <<\* an earlier function whose locals have the names of f's parameter and locals: scopes are per function
               [name |-> "h", exported |-> FALSE, params |-> <<[n |-> "q", t |-> TyInt]>>, ret |-> TyInt,
                body |-> Block(<<Decl("p", Bop("+", V("q"), Lit(1))), Decl("x", Lit(3)), Decl("t", Lit(4)), [k |-> "ret", e |-> Bop("+", V("p"), Bop("+", V("x"), V("t")))]>>)],
               [name |-> "f", exported |-> TRUE, params |-> <<[n |-> "p", t |-> TyInt]>>, ret |-> TyInt,
                body |-> Block(<<Decl("t", V("p"))>> \o Items(body, 1, 1) \o <<[k |-> "ret", e |-> V("t")]>>)],
               \* ... and a LATER function with fresh scopes of its own: the verdict on f does not depend on what follows it
               [name |-> "z", exported |-> FALSE, params |-> <<[n |-> "q", t |-> TyInt]>>, ret |-> TyInt,
                body |-> Block(<<Decl("y", V("q")), Block(<<Decl("x", Lit(2)), ExprS([k |-> "asg", lv |-> V("y"), e |-> Bop("+", V("y"), V("x"))])>>), [k |-> "ret", e |-> V("y")]>>)]>>]

CaseIds == {[body |-> b, prog |-> Program(b)] : b \in Bodies}
CaseOf(c) == [prog |-> c.prog, entry |-> "f", args |-> [p |-> [t |-> "int", v |-> 5]], globals |-> [g |-> [t |-> "int", v |-> 10]]]
Fuel == 20000

VARIABLES cid, ctl, vals, frames, globals, status, ret, steps, calls
INSTANCE NslSem

Init == SInit
Next == SNext
Spec == SSpec

Accepted == NamesOk(cid.prog)
FormulationsAgree == Accepted = NamesOk2(cid.prog)
\* an accepted program always finishes: every use finds its variable
AcceptedRuns == (Accepted /\ status # "run") => status = "done"
Report == status # "run" =>
   PrintT(ToJson([key |-> ToString(cid.body), ok |-> Accepted, status |-> status, ret |-> ret, steps |-> steps,
                  globals |-> globals, args |-> CaseOf(cid).args, init_globals |-> CaseOf(cid).globals, prog |-> cid.prog]))
=============================================================================
