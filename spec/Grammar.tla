------------------------------- MODULE Grammar -------------------------------
(***************************************************************************)
(* The statement level of the NSL grammar as a recognizer: which sequences *)
(* of tokens are a function body.  Expressions are reduced to their        *)
(* skeleton (a primary  x | n , a call  x ( [e] ) , a constructor  T ( e ),*)
(* an assignment  x = e ); operators and their grouping are NslParse's     *)
(* subject, characters are Lexer's.                                        *)
(*                                                                         *)
(*   body      ::= statement*                                              *)
(*   statement ::= '{' statement* '}'                                      *)
(*               | decl ';'            decl ::= type x [ '=' e ]           *)
(*               | e ';'               type ::= T | x   (a type name is an *)
(*               | 'if' '(' e ')' statement [ 'else' statement ]   identifier)*)
(*               | 'while' '(' e ')' ( statement | ';' )                   *)
(*               | 'do' '{' statement* '}' 'while' '(' e ')'     (no ';')  *)
(*               | 'for' '(' [decl] ';' [e] ';' [e] ')' statement          *)
(*               | 'return' [e] ';' | 'break' ';' | 'continue' ';'         *)
(* A lone ';' is not a statement (only a while loop may have it as body).  *)
(*                                                                         *)
(* TLC decides membership for every token sequence over the alphabet up to *)
(* a length and for the sequences the driver hands in (random derivations  *)
(* and their one-token mutations); the driver wraps each sequence in a     *)
(* function and asks the real parser.  Differences are conformance notes:  *)
(* no listed property is about the statement syntax as such.               *)
(***************************************************************************)
EXTENDS Integers, Sequences, FiniteSets, TLC, Json, IOUtils

CONSTANTS MaxLen, Mode          \* Mode = "body": token sequences as function bodies;  "module": as whole modules

BodyAlphabet == {"{", "}", "(", ")", ";", "=", "if", "else", "while", "do", "for", "return", "break", "continue", "T", "x", "n"}
ModuleAlphabet == {"import", "S", ";", "struct", "x", "{", "}", "T", "function", "export", "(", ")", "->", ",", "=", "n"}
Alphabet == IF Mode = "body" THEN BodyAlphabet ELSE ModuleAlphabet
Probes == IF "BATCH" \in DOMAIN IOEnv THEN JsonDeserialize(IOEnv.BATCH) ELSE <<>>

At(s, i) == IF i >= 1 /\ i <= Len(s) THEN s[i] ELSE ""
\* every Parse* returns the position after the construct, or 0 if there is none at position i
RECURSIVE ParseE(_, _)
ParseE(s, i) == IF At(s, i) \in {"x", "T"} /\ At(s, i + 1) = "(" THEN                 \* call  x ( [e] )  or constructor  T ( e )
                     (IF At(s, i) = "x" /\ At(s, i + 2) = ")" THEN i + 3
                      ELSE LET a == ParseE(s, i + 2) IN IF a > 0 /\ At(s, a) = ")" THEN a + 1 ELSE 0)
                ELSE IF At(s, i) \notin {"x", "n"} THEN 0
                ELSE IF At(s, i + 1) = "=" THEN ParseE(s, i + 2) ELSE i + 1
IsDeclStart(s, i) == At(s, i) \in {"T", "x"} /\ At(s, i + 1) = "x"
ParseDecl(s, i) == IF ~IsDeclStart(s, i) THEN 0
                   ELSE IF At(s, i + 2) = "=" THEN ParseE(s, i + 3) ELSE i + 2
Expect(s, i, tok) == IF i > 0 /\ At(s, i) = tok THEN i + 1 ELSE 0
RECURSIVE ParseStmt(_, _), ParseList(_, _)
\* statement* up to (not including) a closing brace or the end of the text
ParseList(s, i) == IF i = 0 THEN 0
                   ELSE IF i > Len(s) \/ At(s, i) = "}" THEN i
                   ELSE ParseList(s, ParseStmt(s, i))
ParseStmt(s, i) ==
  LET t == At(s, i) IN
  CASE t = "{" -> Expect(s, ParseList(s, i + 1), "}")
    [] t = "if" -> LET c == Expect(s, ParseE(s, Expect(s, i + 1, "(")), ")")  th == IF c = 0 THEN 0 ELSE ParseStmt(s, c) IN
                   IF th = 0 THEN 0 ELSE IF At(s, th) = "else" THEN ParseStmt(s, th + 1) ELSE th
    [] t = "while" -> LET c == Expect(s, ParseE(s, Expect(s, i + 1, "(")), ")") IN
                      IF c = 0 THEN 0 ELSE IF At(s, c) = ";" THEN c + 1 ELSE ParseStmt(s, c)
    [] t = "do" -> LET b == IF At(s, i + 1) = "{" THEN Expect(s, ParseList(s, i + 2), "}") ELSE 0 IN
                   Expect(s, ParseE(s, Expect(s, Expect(s, b, "while"), "(")), ")")
    [] t = "for" -> LET a == Expect(s, i + 1, "(")
                        d == IF a = 0 THEN 0 ELSE IF At(s, a) = ";" THEN a ELSE ParseDecl(s, a)
                        p1 == Expect(s, d, ";")
                        c == IF p1 = 0 THEN 0 ELSE IF At(s, p1) = ";" THEN p1 ELSE ParseE(s, p1)
                        p2 == Expect(s, c, ";")
                        n == IF p2 = 0 THEN 0 ELSE IF At(s, p2) = ")" THEN p2 ELSE ParseE(s, p2)
                        r == Expect(s, n, ")") IN
                    IF r = 0 THEN 0 ELSE ParseStmt(s, r)
    [] t = "return" -> IF At(s, i + 1) = ";" THEN i + 2 ELSE Expect(s, ParseE(s, i + 1), ";")
    [] t \in {"break", "continue"} -> Expect(s, i + 1, ";")
    [] OTHER -> IF IsDeclStart(s, i) THEN Expect(s, ParseDecl(s, i), ";") ELSE Expect(s, ParseE(s, i), ";")
IsBody(s) == ParseList(s, 1) = Len(s) + 1

(* the module level:                                                          *)
(*   module   ::= item+                                                        *)
(*   item     ::= 'import' S ';'  |  decl ';'                                  *)
(*              | 'struct' x '{' ( decl ';' )* '}'                             *)
(*              | [ 'export' ] 'function' x '(' [ arg ( ',' arg )* ] ')' '->' type ( '{' statement* '}' | ';' )   *)
(*   arg      ::= type [ x ]                                                   *)
IsType(s, i) == At(s, i) \in {"T", "x"}
RECURSIVE ParseArgs(_, _), ParseFields(_, _), ParseItems(_, _)
ParseArgs(s, i) == IF ~IsType(s, i) THEN 0                                   \* at least one argument; returns the position of ')'
                   ELSE LET j == IF At(s, i + 1) = "x" THEN i + 2 ELSE i + 1 IN
                        IF At(s, j) = "," THEN ParseArgs(s, j + 1) ELSE j
ParseFields(s, i) == IF At(s, i) = "}" THEN i
                     ELSE LET d == Expect(s, ParseDecl(s, i), ";") IN IF d = 0 THEN 0 ELSE ParseFields(s, d)
ParseItem(s, i) ==
  LET t == At(s, i) IN
  CASE t = "import" -> Expect(s, Expect(s, i + 1, "S"), ";")
    [] t = "struct" -> LET o == Expect(s, Expect(s, i + 1, "x"), "{") IN IF o = 0 THEN 0 ELSE Expect(s, ParseFields(s, o), "}")
    [] t \in {"export", "function"} ->
         LET f == IF t = "export" THEN Expect(s, i + 1, "function") ELSE i + 1
             o == Expect(s, Expect(s, f, "x"), "(")
             a == IF o = 0 THEN 0 ELSE IF At(s, o) = ")" THEN o ELSE ParseArgs(s, o)
             r == Expect(s, Expect(s, a, ")"), "->")
             ty == IF r > 0 /\ IsType(s, r) THEN r + 1 ELSE 0 IN
         IF ty = 0 THEN 0 ELSE IF At(s, ty) = ";" THEN ty + 1 ELSE IF At(s, ty) = "{" THEN Expect(s, ParseList(s, ty + 1), "}") ELSE 0
    [] OTHER -> Expect(s, ParseDecl(s, i), ";")
ParseItems(s, i) == IF i = 0 THEN 0 ELSE IF i > Len(s) THEN i ELSE ParseItems(s, ParseItem(s, i))
IsModule(s) == Len(s) > 0 /\ ParseItems(s, 1) = Len(s) + 1
Member(s) == IF Mode = "body" THEN IsBody(s) ELSE IsModule(s)

VARIABLE text
Texts == UNION {[1..k -> Alphabet] : k \in 0..MaxLen}
Init == text \in Texts \cup {Probes[i] : i \in 1..Len(Probes)}
Next == UNCHANGED text
Spec == Init /\ [][Next]_text

\* a body stays a body when it is put into braces, and two bodies concatenate to a body (sanity laws of the recognizer)
BracesLaw == (Mode = "body" /\ IsBody(text)) => IsBody(<<"{">> \o text \o <<"}">>)
ConcatLaw == Member(text) => Member(text \o text)
PrefixLaw == (Member(text) /\ Len(text) > 0) => text[Len(text)] \in {";", "}", ")"}
Report == PrintT(ToJson([text |-> text, ok |-> Member(text)]))
=============================================================================
