------------------------------ MODULE IRMachine ------------------------------
(***************************************************************************)
(* The linear IR as an abstract machine - what nsl/VM.py has to be - and   *)
(* the validation of instruction traces recorded from the real VM.         *)
(*                                                                         *)
(* Data (JSON file named by BATCH): modules projected by harness/irproj.py *)
(* and cases [id, m (module index), entry, args, globals, trace].          *)
(* State: a stack of activations [fn, pc, regs, args, named] (pc = index   *)
(* into the function's flattened instruction list, regs = results of       *)
(* executed instructions by reference number, named = local variables),    *)
(* the globals, status, the returned value, and l = position in the trace. *)
(* One action per executed instruction (Exec), by opcode family:           *)
(*   LOAD / STORE (global, argument by position, local by name),           *)
(*   NEW_VARIABLE (zero instance per execution), arithmetic / comparison / *)
(*   logic at the instruction's type, vector and matrix operators, CAST,   *)
(*   BRANCH (flattened block offsets, fall through at block end), CALL     *)
(*   (fresh activation, arguments by value), RETURN, LOAD_ARRAY /          *)
(*   VECTOR_GET / MATRIX_GET, STORE_ARRAY (in place, through the variable  *)
(*   the array was loaded from), VECTOR_SET / MATRIX_SET (copy then write),*)
(*   LOAD_MEMBER / STORE_MEMBER, SHUFFLE, CONSTRUCT_PRIMITIVE.             *)
(* A register that holds an array or a structure holds a REFERENCE to the  *)
(* variable (and path) it was loaded from, which is the aliasing the       *)
(* compiler's lowering relies on.                                          *)
(*                                                                         *)
(* Trace validation: every event logged by the VM hook (activation depth,  *)
(* function, pc, opcode, reference, and the value the VM left in that      *)
(* register) must be the step the machine takes, with the same value.      *)
(* The verdict names the first event that is not; invariants of the        *)
(* machine (operands defined, frames below the top unchanged) are checked  *)
(* on the implementation's own execution.                                  *)
(***************************************************************************)
EXTENDS NslTypes, TLC, Json, IOUtils

Batch == JsonDeserialize(IOEnv.BATCH)         \* [mods : Seq(module), cases : Seq(case)]
VARIABLES cid, stack, globals, status, ret, l, why, last
vars == <<cid, stack, globals, status, ret, l, why, last>>
\* last = [ref, idx]: register ref of the top activation was written by the instruction logged as event idx (0 = nothing to compare)
NoLast == [ref |-> -1, idx |-> 0]

Case == Batch.cases[cid]
Mod == Batch.mods[Case.m]
Funcs == Mod.funcs
Trace == Case.trace
FnIndex(name) == IF \E i \in 1..Len(Funcs) : Funcs[i].name = name THEN CHOOSE i \in 1..Len(Funcs) : Funcs[i].name = name ELSE 0
\* flattened instruction list of function f, and the offset of each block
RECURSIVE FlatFrom(_, _)
FlatFrom(f, b) == IF b > Len(Funcs[f].blocks) THEN <<>> ELSE Funcs[f].blocks[b].ins \o FlatFrom(f, b + 1)
Flat(f) == FlatFrom(f, 1)
RECURSIVE OffsetOf(_, _, _, _)
OffsetOf(f, blockref, b, acc) == IF b > Len(Funcs[f].blocks) THEN -1
                                 ELSE IF Funcs[f].blocks[b].ref = blockref THEN acc
                                 ELSE OffsetOf(f, blockref, b + 1, acc + Len(Funcs[f].blocks[b].ins))
Offset(f, blockref) == OffsetOf(f, blockref, 1, 0)
ConstOf(f, r) == LET cs == Funcs[f].consts IN
                 IF \E k \in 1..Len(cs) : cs[k].ref = r THEN [ok |-> TRUE, v |-> cs[CHOOSE k \in 1..Len(cs) : cs[k].ref = r].v] ELSE [ok |-> FALSE]

-----------------------------------------------------------------------------
(* values: scalars (NslArith), vec, mat, arr, struct as in NslSem, VOID, and references *)
VOID == [t |-> "void"]
IsPrimV(v) == IsNum(v) \/ v.t \in {"vec", "mat"}
VecV(c) == [t |-> "vec", c |-> c]
MatV(rows) == [t |-> "mat", c |-> rows]
Ref(scope, var, path) == [t |-> "ref", scope |-> scope, var |-> var, path |-> path]
IsAggT(t) == t.k \in {"arr", "struct"}
SeqBad(s) == \E i \in 1..Len(s) : IsBad(s[i])
FirstBad(s) == s[CHOOSE i \in 1..Len(s) : IsBad(s[i]) /\ \A j \in 1..(i - 1) : ~IsBad(s[j])]
VecOf(s) == IF SeqBad(s) THEN FirstBad(s) ELSE VecV(s)
MatOf(rows) == LET bad == {i \in 1..Len(rows) : SeqBad(rows[i])} IN
               IF bad = {} THEN MatV(rows) ELSE FirstBad(rows[CHOOSE i \in bad : \A j \in bad : i <= j])
ZeroK(c) == IF c = "float" THEN [t |-> "float", n |-> 0, e |-> 0] ELSE [t |-> c, v |-> 0]
RECURSIVE Zero(_), ZeroArr(_, _)
Zero(t) == CASE t.k \in {"int", "uint", "float"} -> ZeroK(t.k)
             [] t.k = "vec" -> VecV([i \in 1..t.n |-> ZeroK(t.c)])
             [] t.k = "mat" -> MatV([i \in 1..t.r |-> [j \in 1..t.n |-> ZeroK(t.c)]])
             [] t.k = "arr" -> ZeroArr(t.elem, t.dims)
             [] t.k = "struct" -> [t |-> "struct", f |-> [name \in {t.fields[i].n : i \in 1..Len(t.fields)} |->
                                                            Zero(t.fields[CHOOSE i \in 1..Len(t.fields) : t.fields[i].n = name].t)]]
ZeroArr(elem, dims) == [t |-> "arr", c |-> [i \in 1..dims[1] |-> IF Len(dims) = 1 THEN Zero(elem) ELSE ZeroArr(elem, Tail(dims))]]

Top == stack[Len(stack)]
\* the value a variable holds
VarVal(scope, var) == CASE scope = "GLOBAL" -> globals[var]
                        [] scope = "FUNCTION_ARGUMENT" -> Top.args[var + 1]
                        [] scope = "FUNCTION_LOCAL" -> Top.named[var]
VarKnown(scope, var) == CASE scope = "GLOBAL" -> var \in DOMAIN globals
                          [] scope = "FUNCTION_ARGUMENT" -> var + 1 \in 1..Len(Top.args)
                          [] scope = "FUNCTION_LOCAL" -> var \in DOMAIN Top.named
\* follow a path of steps [k |-> "i", i |-> index] | [k |-> "m", f |-> field] inside a value
RECURSIVE Walk(_, _)
Walk(v, path) == IF path = <<>> \/ IsBad(v) THEN v
                 ELSE LET s == Head(path) IN
                      IF s.k = "i" THEN (IF v.t \notin {"arr", "vec", "mat"} THEN ILL
                                         ELSE IF s.i < 0 \/ s.i >= Len(v.c) THEN OOB
                                         ELSE Walk(IF v.t = "mat" THEN VecV(v.c[s.i + 1]) ELSE v.c[s.i + 1], Tail(path)))
                      ELSE (IF v.t # "struct" \/ s.f \notin DOMAIN v.f THEN ILL ELSE Walk(v.f[s.f], Tail(path)))
RECURSIVE Put(_, _, _)
Put(v, path, new) == IF IsBad(new) THEN new ELSE IF path = <<>> THEN new
                     ELSE LET s == Head(path) IN
                          IF s.k = "i" THEN (IF v.t \notin {"arr", "vec", "mat"} THEN ILL
                                             ELSE IF s.i < 0 \/ s.i >= Len(v.c) THEN OOB
                                             ELSE IF v.t = "mat" THEN (LET r == Put(VecV(v.c[s.i + 1]), Tail(path), new) IN IF IsBad(r) THEN r ELSE [v EXCEPT !.c[s.i + 1] = r.c])
                                             ELSE (LET r == Put(v.c[s.i + 1], Tail(path), new) IN IF IsBad(r) THEN r ELSE [v EXCEPT !.c[s.i + 1] = r]))
                          ELSE (IF v.t # "struct" \/ s.f \notin DOMAIN v.f THEN ILL
                                ELSE LET r == Put(v.f[s.f], Tail(path), new) IN IF IsBad(r) THEN r ELSE [v EXCEPT !.f[s.f] = r])
\* the value behind a register content (a reference is followed to the variable it names)
Deref(x) == IF x.t = "ref" THEN Walk(VarVal(x.scope, x.var), x.path) ELSE x

\* operand r of the executing instruction: a constant of the function or a register written earlier in this activation
Defined(r) == ConstOf(Top.fn, r).ok \/ r \in DOMAIN Top.regs
Opd(r) == IF ConstOf(Top.fn, r).ok THEN ConstOf(Top.fn, r).v ELSE Top.regs[r]

-----------------------------------------------------------------------------
(* operators at the instruction's type *)
Kind(t) == IF t.k \in {"int", "uint", "float"} THEN t.k ELSE IF t.k \in {"vec", "mat"} THEN t.c ELSE "int"
OpSym(o) == CASE o \in {"ADD", "VECTOR_ADD"} -> "+" [] o \in {"SUB", "VECTOR_SUB"} -> "-" [] o \in {"MUL", "VECTOR_MUL", "VECTOR_MUL_SCALAR"} -> "*"
              [] o \in {"DIV", "VECTOR_DIV", "VECTOR_DIV_SCALAR"} -> "/" [] o \in {"MOD", "VECTOR_MOD"} -> "%"
              [] o \in {"LG_AND", "VECTOR_LG_AND"} -> "&&" [] o \in {"LG_OR", "VECTOR_LG_OR"} -> "||"
              [] o \in {"CMP_GT", "VECTOR_CMP_GT"} -> ">" [] o \in {"CMP_LT", "VECTOR_CMP_LT"} -> "<" [] o \in {"CMP_LE", "VECTOR_CMP_LE"} -> "<="
              [] o \in {"CMP_GE", "VECTOR_CMP_GE"} -> ">=" [] o \in {"CMP_NE", "VECTOR_CMP_NE"} -> "!=" [] o \in {"CMP_EQ", "VECTOR_CMP_EQ"} -> "=="
\* scalar operation: arithmetic at the kind of the instruction's type, comparisons and logic on the values themselves
Sc(sym, rk, a, b) ==
  IF IsBad(a) THEN a ELSE IF IsBad(b) THEN b ELSE IF ~IsNum(a) \/ ~IsNum(b) THEN ILL
  ELSE IF sym \in CmpOps \cup LogOps THEN
       LET k == IF a.t = "float" \/ b.t = "float" THEN "float" ELSE "int" IN ScalarOp(sym, k, "int", a, b)
  ELSE ScalarOp(sym, rk, rk, a, b)
RECURSIVE DotFrom(_, _, _, _, _)
DotFrom(xs, ys, i, k, acc) == IF i > Len(xs) \/ IsBad(acc) THEN acc
                              ELSE LET p == Sc("*", k, xs[i], ys[i]) IN IF IsBad(p) THEN p ELSE DotFrom(xs, ys, i + 1, k, Sc("+", k, acc, p))
Dot(xs, ys, k) == DotFrom(xs, ys, 1, k, ZeroK(k))
Col(rows, j) == [i \in 1..Len(rows) |-> rows[i][j]]
Binary(ins, a, b) ==
  LET o == ins.op  sym == OpSym(o)  rk == Kind(ins.t) IN
  IF IsBad(a) THEN a ELSE IF IsBad(b) THEN b
  ELSE IF o \in {"ADD", "SUB", "MUL", "DIV", "MOD", "LG_AND", "LG_OR", "CMP_GT", "CMP_LT", "CMP_LE", "CMP_GE", "CMP_NE", "CMP_EQ"} THEN Sc(sym, rk, a, b)
  ELSE IF o \in {"VECTOR_MUL_SCALAR", "VECTOR_DIV_SCALAR"} THEN
       (IF a.t # "vec" \/ ~IsNum(b) THEN ILL ELSE VecOf([i \in 1..Len(a.c) |-> Sc(sym, rk, a.c[i], b)]))
  ELSE IF o = "MATRIX_MUL_MATRIX" THEN
       (IF a.t # "mat" THEN ILL
        ELSE IF b.t = "vec" THEN (IF Len(a.c[1]) # Len(b.c) THEN ILL ELSE VecOf([i \in 1..Len(a.c) |-> Dot(a.c[i], b.c, rk)]))
        ELSE IF b.t = "mat" THEN (IF Len(a.c[1]) # Len(b.c) THEN ILL ELSE MatOf([i \in 1..Len(a.c) |-> [j \in 1..Len(b.c[1]) |-> Dot(a.c[i], Col(b.c, j), rk)]]))
        ELSE ILL)
  ELSE \* component-wise vector operators
       IF a.t # "vec" \/ b.t # "vec" \/ Len(a.c) # Len(b.c) THEN ILL ELSE VecOf([i \in 1..Len(a.c) |-> Sc(sym, rk, a.c[i], b.c[i])])
CastK(k, x) == IF IsBad(x) THEN x ELSE IF ~IsNum(x) THEN ILL ELSE ConvK(k, x)
Cast(t, v) == CASE t.k \in {"int", "uint", "float"} -> CastK(t.k, v)
                [] t.k = "vec" -> IF v.t # "vec" THEN ILL ELSE VecOf([i \in 1..Len(v.c) |-> CastK(t.c, v.c[i])])
                [] t.k = "mat" -> IF v.t # "mat" THEN ILL ELSE MatOf([i \in 1..Len(v.c) |-> [j \in 1..Len(v.c[i]) |-> CastK(t.c, v.c[i][j])]])
                [] OTHER -> ILL
Flatten(args) == LET RECURSIVE F(_)
                     F(i) == IF i > Len(args) THEN <<>> ELSE (IF args[i].t = "vec" THEN args[i].c ELSE <<args[i]>>) \o F(i + 1)
                 IN F(1)
Construct(t, args) == IF SeqBad(args) THEN FirstBad(args)
                      ELSE IF t.k = "vec" THEN VecV(Flatten(args))
                      ELSE IF t.k = "mat" THEN (IF \E i \in 1..Len(args) : args[i].t # "vec" THEN ILL ELSE MatV([i \in 1..Len(args) |-> args[i].c]))
                      ELSE IF Len(args) = 1 THEN args[1] ELSE ILL
Shuffle(ins, a, b) ==
  LET ca == IF a.t = "vec" THEN a.c ELSE <<a>>   cb == IF b.t = "vec" THEN b.c ELSE <<b>>
      comb == ca \o cb  ix == ins.indices IN
  IF \E j \in 1..Len(ix) : ix[j] < 0 \/ ix[j] >= Len(comb) THEN ILL
  ELSE IF Len(ix) = 1 /\ ins.t.k \in {"int", "uint", "float"} THEN comb[ix[1] + 1]
  ELSE VecV([j \in 1..Len(ix) |-> comb[ix[j] + 1]])
Truth1(v) == IF IsNum(v) THEN Truth(v) ELSE TRUE

-----------------------------------------------------------------------------
(* one instruction *)
SetTop(fr) == [stack EXCEPT ![Len(stack)] = fr]
WriteVar(scope, var, v) ==         \* -> [stack, globals]
  CASE scope = "GLOBAL" -> [s |-> stack, g |-> [globals EXCEPT ![var] = v]]
    [] scope = "FUNCTION_ARGUMENT" -> [s |-> SetTop([Top EXCEPT !.args[var + 1] = v]), g |-> globals]
    [] scope = "FUNCTION_LOCAL" -> [s |-> SetTop([Top EXCEPT !.named = (var :> v) @@ @]), g |-> globals]
Halt(st, w) == /\ status' = st /\ why' = w /\ UNCHANGED <<cid, stack, globals, ret, last>>      \* (l is set by Step)
\* continue in the top activation with register r := v and pc advanced (stack2 / globals2 already carry other effects)
Cont(stack2, globals2, r, v, nextpc) ==
  /\ stack' = [stack2 EXCEPT ![Len(stack2)] = [@ EXCEPT !.regs = (IF r >= 0 THEN (r :> v) @@ @ ELSE @), !.pc = nextpc]]
  /\ globals' = globals2 /\ last' = [ref |-> r, idx |-> IF r >= 0 THEN l ELSE 0] /\ UNCHANGED <<cid, status, ret, why>>

IntIndex(x) == IsI(x)
Exec ==
  LET fr == Top  code == Flat(fr.fn) IN
  IF fr.pc > Len(code) THEN
       \* the function ran off its end: it returns nothing
       (IF Len(stack) = 1 THEN /\ status' = "done" /\ ret' = VOID /\ last' = NoLast /\ UNCHANGED <<cid, stack, globals, why>>
        ELSE LET caller == stack[Len(stack) - 1]  cins == Flat(caller.fn)[caller.pc] IN
             /\ stack' = [SubSeq(stack, 1, Len(stack) - 1) EXCEPT ![Len(stack) - 1] = [@ EXCEPT !.regs = (cins.ref :> VOID) @@ @, !.pc = @ + 1]]
             /\ last' = NoLast /\ UNCHANGED <<cid, globals, status, ret, why>>)
  ELSE
  LET ins == code[fr.pc]  o == ins.op  u == ins.uses  np == fr.pc + 1 IN
  IF \E k \in 1..Len(u) : u[k] < 0 \/ ~Defined(u[k]) THEN Halt("undefined-operand", o)
  ELSE
  CASE o = "LOAD" ->
         IF ~VarKnown(ins.scope, IF ins.scope = "FUNCTION_ARGUMENT" THEN ins.vari ELSE ins.var) THEN Halt("unknown-variable", ins.var)
         ELSE LET var == IF ins.scope = "FUNCTION_ARGUMENT" THEN ins.vari ELSE ins.var IN
              Cont(stack, globals, ins.ref, IF IsAggT(ins.t) THEN Ref(ins.scope, var, <<>>) ELSE VarVal(ins.scope, var), np)
    [] o = "STORE" ->
         LET var == IF ins.scope = "FUNCTION_ARGUMENT" THEN ins.vari ELSE ins.var
             v == Deref(Opd(u[1]))  w == WriteVar(ins.scope, var, v) IN
         IF IsBad(v) THEN Halt(v.t, o) ELSE Cont(w.s, w.g, -1, VOID, np)
    [] o = "NEW_VARIABLE" ->
         LET z == Zero(ins.t)  w == WriteVar("FUNCTION_LOCAL", ins.var, z) IN
         Cont(w.s, w.g, ins.ref, IF IsAggT(ins.t) THEN Ref("FUNCTION_LOCAL", ins.var, <<>>) ELSE z, np)
    [] o \in {"LOAD_ARRAY", "VECTOR_GET", "MATRIX_GET"} ->
         LET base == Opd(u[1])  ix == Deref(Opd(u[2])) IN
         IF ~IntIndex(ix) THEN Halt("ill", "index is not an integer")
         ELSE IF base.t = "ref" THEN
              (LET nr == Ref(base.scope, base.var, Append(base.path, [k |-> "i", i |-> ix.v]))  v == Deref(nr) IN
               IF IsBad(v) THEN Halt(v.t, o) ELSE Cont(stack, globals, ins.ref, IF IsAggT(ins.t) THEN nr ELSE v, np))
         ELSE (LET v == Walk(base, <<[k |-> "i", i |-> ix.v]>>) IN IF IsBad(v) THEN Halt(v.t, o) ELSE Cont(stack, globals, ins.ref, v, np))
    [] o = "STORE_ARRAY" ->
         LET base == Opd(u[1])  ix == Deref(Opd(u[2]))  v == Deref(Opd(u[3])) IN
         IF ~IntIndex(ix) THEN Halt("ill", "index is not an integer")
         ELSE IF base.t # "ref" THEN Cont(stack, globals, -1, VOID, np)          \* a write into a temporary has no effect on any variable
         ELSE LET new == Put(VarVal(base.scope, base.var), Append(base.path, [k |-> "i", i |-> ix.v]), v) IN
              IF IsBad(new) THEN Halt(new.t, o) ELSE LET w == WriteVar(base.scope, base.var, new) IN Cont(w.s, w.g, -1, VOID, np)
    [] o \in {"VECTOR_SET", "MATRIX_SET"} ->
         LET base == Deref(Opd(u[1]))  ix == Deref(Opd(u[2]))  v == Deref(Opd(u[3])) IN
         IF ~IntIndex(ix) THEN Halt("ill", "index is not an integer")
         ELSE LET new == Put(base, <<[k |-> "i", i |-> ix.v]>>, IF o = "MATRIX_SET" /\ v.t = "vec" THEN v ELSE v) IN
              IF IsBad(new) THEN Halt(new.t, o) ELSE Cont(stack, globals, ins.ref, new, np)
    [] o = "LOAD_MEMBER" ->
         LET base == Opd(u[1]) IN
         IF base.t = "ref" THEN (LET nr == Ref(base.scope, base.var, Append(base.path, [k |-> "m", f |-> ins.member]))  v == Deref(nr) IN
                                 IF IsBad(v) THEN Halt(v.t, o) ELSE Cont(stack, globals, ins.ref, IF IsAggT(ins.t) THEN nr ELSE v, np))
         ELSE (LET v == Walk(base, <<[k |-> "m", f |-> ins.member]>>) IN IF IsBad(v) THEN Halt(v.t, o) ELSE Cont(stack, globals, ins.ref, v, np))
    [] o = "STORE_MEMBER" ->
         LET base == Opd(u[1])  v == Deref(Opd(u[2])) IN
         IF base.t # "ref" THEN Cont(stack, globals, -1, VOID, np)
         ELSE LET new == Put(VarVal(base.scope, base.var), Append(base.path, [k |-> "m", f |-> ins.member]), v) IN
              IF IsBad(new) THEN Halt(new.t, o) ELSE LET w == WriteVar(base.scope, base.var, new) IN Cont(w.s, w.g, -1, VOID, np)
    [] o = "SHUFFLE" -> LET v == Shuffle(ins, Deref(Opd(u[1])), Deref(Opd(u[2]))) IN IF IsBad(v) THEN Halt(v.t, o) ELSE Cont(stack, globals, ins.ref, v, np)
    [] o = "CAST" -> LET v == Cast(ins.t, Deref(Opd(u[1]))) IN IF IsBad(v) THEN Halt(v.t, o) ELSE Cont(stack, globals, ins.ref, v, np)
    [] o = "CONSTRUCT_PRIMITIVE" ->
         LET v == Construct(ins.t, [k \in 1..Len(u) |-> Deref(Opd(u[k]))]) IN IF IsBad(v) THEN Halt(v.t, o) ELSE Cont(stack, globals, ins.ref, v, np)
    [] o = "BRANCH" ->
         IF ins.cond THEN
              LET p == Deref(Opd(u[1]))  t == IF Truth1(p) THEN ins.tgt[1] ELSE ins.tgt[2] IN
              IF Offset(fr.fn, t) < 0 THEN Halt("bad-branch-target", o) ELSE Cont(stack, globals, -1, VOID, Offset(fr.fn, t) + 1)
         ELSE IF Offset(fr.fn, ins.tgt[1]) < 0 THEN Halt("bad-branch-target", o) ELSE Cont(stack, globals, -1, VOID, Offset(fr.fn, ins.tgt[1]) + 1)
    [] o = "CALL" ->
         LET f == FnIndex(ins.callee) IN
         IF f = 0 THEN Halt("unknown-callee", ins.callee)
         ELSE /\ stack' = Append(stack, [fn |-> f, pc |-> 1, regs |-> <<>>, args |-> [k \in 1..Len(u) |-> Deref(Opd(u[k]))], named |-> <<>>, cl |-> l])
              /\ last' = NoLast /\ UNCHANGED <<cid, globals, status, ret, why>>
    [] o = "RETURN" ->
         LET v == IF Len(u) = 0 THEN VOID ELSE Deref(Opd(u[1])) IN
         IF IsBad(v) THEN Halt(v.t, o)
         ELSE IF Len(stack) = 1 THEN /\ status' = "done" /\ ret' = v /\ last' = NoLast /\ UNCHANGED <<cid, stack, globals, why>>
         ELSE LET caller == stack[Len(stack) - 1]  cins == Flat(caller.fn)[caller.pc] IN
              /\ stack' = [SubSeq(stack, 1, Len(stack) - 1) EXCEPT ![Len(stack) - 1] = [@ EXCEPT !.regs = (cins.ref :> v) @@ @, !.pc = @ + 1]]
              /\ last' = [ref |-> cins.ref, idx |-> fr.cl] /\ UNCHANGED <<cid, globals, status, ret, why>>
    [] OTHER ->    \* the binary family
         LET v == Binary(ins, Deref(Opd(u[1])), Deref(Opd(u[2]))) IN IF IsBad(v) THEN Halt(v.t, o) ELSE Cont(stack, globals, ins.ref, v, np)

-----------------------------------------------------------------------------
(* trace validation: the event at position l must be the instruction the machine executes now *)
ValEq(spec, logged) ==     \* logged values use the same encoding; numbers are compared as numbers
  LET RECURSIVE Eq(_, _)
      Eq(a, b) == IF IsNum(a) /\ IsNum(b) THEN ToF(a) = ToF(b)
                  ELSE IF a.t # b.t THEN FALSE
                  ELSE IF a.t \in {"vec", "arr"} THEN Len(a.c) = Len(b.c) /\ \A i \in 1..Len(a.c) : Eq(a.c[i], b.c[i])
                  ELSE IF a.t = "mat" THEN Len(a.c) = Len(b.c) /\ \A i \in 1..Len(a.c) : Len(a.c[i]) = Len(b.c[i]) /\ \A j \in 1..Len(a.c[i]) : Eq(a.c[i][j], b.c[i][j])
                  ELSE IF a.t = "struct" THEN DOMAIN a.f = DOMAIN b.f /\ \A k \in DOMAIN a.f : Eq(a.f[k], b.f[k])
                  ELSE TRUE
  IN Eq(spec, logged)
Init == /\ cid \in 1..Len(Batch.cases)
        /\ LET c == Batch.cases[cid]  f == (LET m == Batch.mods[c.m] IN CHOOSE i \in 1..Len(m.funcs) : m.funcs[i].name = c.entry) IN
           stack = <<[fn |-> f, pc |-> 1, regs |-> <<>>, args |-> c.args, named |-> <<>>, cl |-> 0]>>
        /\ globals = Batch.cases[cid].globals /\ status = "run" /\ ret = VOID /\ l = 1 /\ why = "" /\ last = NoLast
\* the event that describes the step about to be taken
Matches(e) == LET fr == Top  code == Flat(fr.fn) IN
              /\ e.d = Len(stack) /\ e.f = Funcs[fr.fn].name /\ e.pc = fr.pc - 1
              /\ fr.pc <= Len(code) /\ e.op = code[fr.pc].op
\* the register the VM wrote holds the machine's value (compared before the next step, when the VM's hook reads it too)
ResultAgrees == (last.idx > 0 /\ last.ref \in DOMAIN Top.regs /\ "res" \in DOMAIN Trace[last.idx])
                   => ValEq(Deref(Top.regs[last.ref]), Trace[last.idx].res)
\* A case without a trace (free |-> TRUE) is simply executed: the machine as an interpreter of the IR, used to compare the
\* unoptimised and the optimised module of one program on the IR's own semantics, independently of nsl/VM.py.
Free == "free" \in DOMAIN Case /\ Case.free
MaxFreeSteps == 20000
Step == /\ status = "run"
        /\ IF Free THEN (IF l > MaxFreeSteps THEN Halt("fuel", "") /\ l' = l ELSE Exec /\ l' = l + 1)
           ELSE IF ~ResultAgrees THEN Halt("result-mismatch", Trace[last.idx].op) /\ l' = l
           ELSE IF Top.pc > Len(Flat(Top.fn)) THEN Exec /\ l' = l            \* falling off the end of a function is not an instruction
           ELSE IF l > Len(Trace) THEN Halt("trace-ends-early", "the VM stopped while the machine still runs") /\ l' = l
           ELSE IF ~Matches(Trace[l]) THEN Halt("diverged", "the VM executed another instruction than the machine") /\ l' = l
           ELSE Exec /\ l' = l + 1
Next == Step
Spec == Init /\ [][Next]_vars
\* a step never changes an activation below the top one
FrameIsolation == [][\A i \in 1..(Len(stack) - 1) : i < Len(stack') => (stack'[i] = stack[i] \/ i = Len(stack'))]_vars
Report == status # "run" => PrintT(ToJson([id |-> Case.id, status |-> status, why |-> why, l |-> l, lastidx |-> last.idx,
                                            depth |-> Len(stack), fn |-> Funcs[Top.fn].name, pc |-> Top.pc - 1, ret |-> ret, globals |-> globals,
                                            spec |-> IF status = "result-mismatch" THEN Deref(Top.regs[last.ref]) ELSE VOID]))
=============================================================================
