------------------------------- MODULE MC_C13 -------------------------------
(***************************************************************************)
(* C13: the whole grid of static element-selection checks.                 *)
(*   arr   array shapes of 1-3 dimensions with extents 1-3, one constant   *)
(*         index from -1 to extent+1 at one position of a full access      *)
(*         chain (the other positions hold the valid index 0 or extent-1)  *)
(*   vec   vector sizes 2-4, constant index -1 .. size+1                   *)
(*   mat   float3x3 / float4x4, constant row and column -1 .. size+1       *)
(*   ityp  index expressions of every kind of type                         *)
(*   mask  every swizzle mask up to MaxMask letters over xyzw, rgba and    *)
(*         two foreign letters, on vectors of size 2-4                     *)
(* Expected verdicts come from NslStatic (ConstIndexOk, MaskOk).           *)
(***************************************************************************)
EXTENDS Integers, Sequences, FiniteSets, TLC, Json, NslStatic

CONSTANTS MaxMask

Shapes == UNION {[1..n -> 1..3] : n \in 1..3}
\* a full chain of constants: position k holds c, the others a valid index (0, or the last one when Hi)
Chain(sh, k, c, hi) == [j \in 1..Len(sh) |-> IF j = k THEN c ELSE IF hi THEN sh[j] - 1 ELSE 0]
ArrCases == UNION {{[kind |-> "arr", shape |-> sh, chain |-> Chain(sh, k, c, hi), pos |-> k, ok |-> ConstIndexOk(c, sh[k])] :
                       k \in 1..Len(sh), c \in -1..4, hi \in BOOLEAN} : sh \in Shapes}

VecCases == {[kind |-> "vec", size |-> n, c |-> c, ok |-> ConstIndexOk(c, n)] : n \in 2..4, c \in -1..5}
MatCases == {[kind |-> "mat", size |-> n, row |-> r, col |-> c, ok |-> ConstIndexOk(r, n) /\ ConstIndexOk(c, n)] :
               n \in {3, 4}, r \in -1..5, c \in -1..5}
\* index expression kinds: the index must have integer type (int or uint scalar); a non-constant index is not range-checked
ITypes == {"int-var", "uint-var", "float-var", "float-literal", "int2-var", "float2-var", "int-big-var"}
ITypCases == {[kind |-> "ityp", it |-> t, on |-> o, ok |-> t \in {"int-var", "uint-var", "int-big-var"}] : t \in ITypes, o \in {"arr", "vec", "mat"}}
\* index expressions built with one binary operator from two scalar variables: the index has the operator's result type - the wider
\* operand type for arithmetic (float > int > uint), int for a comparison - and is accepted exactly if that type is int or uint
Scalars == {"int", "uint", "float"}
Rank(t) == CASE t = "float" -> 3 [] t = "int" -> 2 [] t = "uint" -> 1
Wider(a, b) == IF Rank(a) >= Rank(b) THEN a ELSE b
BinResult(l, op, r) == IF op \in {"<", "=="} THEN "int" ELSE Wider(l, r)
IBinCases == {[kind |-> "ibin", l |-> l, op |-> op, r |-> r, on |-> o, ok |-> BinResult(l, op, r) # "float"] :
                l \in Scalars, r \in Scalars, op \in {"*", "+", "-", "<", "=="}, o \in {"arr", "vec", "mat"}}

Letters == {"x", "y", "z", "w", "r", "g", "b", "a", "q", "s"}
Masks == UNION {[1..n -> Letters] : n \in 1..MaxMask}
MaskCases == {[kind |-> "mask", size |-> n, mask |-> m, ok |-> MaskOk(m, n)] : n \in 2..4, m \in Masks}

\* Compositions: a program with two element selections in some relation is accepted exactly if both selections are.
\* Atoms are int-valued selections on  int[3] t, int2 iv  with index  int i / float x:
Atoms == {[s |-> "arrc", c |-> c] : c \in {-1, 1, 3}} \cup {[s |-> "arrt", it |-> it] : it \in {"int-var", "float-var", "float-literal"}}
         \cup {[s |-> "mask", m |-> m] : m \in {<<"x">>, <<"z">>, <<"x", "g">>, <<"y", "x">>}} \cup {[s |-> "vecc", c |-> c] : c \in {1, 2}}
         \* the same masks on a larger vector (int4 iv4), where z is a component: validity depends on the vector, not on the spelling
         \cup {[s |-> "mask4", m |-> m] : m \in {<<"z">>, <<"w">>}}
AtomOk(a) == CASE a.s = "arrc" -> ConstIndexOk(a.c, 3) [] a.s = "arrt" -> a.it = "int-var"
               [] a.s = "mask" -> MaskOk(a.m, 2) [] a.s = "vecc" -> ConstIndexOk(a.c, 2) [] a.s = "mask4" -> MaskOk(a.m, 4)
\* seq: two statements; fns: two functions; nested-member: a[S1].x + S2 (the first selection is the index of an element whose
\* component is selected); nested-index: t[S1 % 3] + m[S2 % 3][0] (selections inside index expressions)
Rels == {"seq", "fns", "nested-member", "nested-index"}
CompCases == {[kind |-> "comp", rel |-> r, a |-> a, b |-> b, ok |-> AtomOk(a) /\ AtomOk(b)] : r \in Rels, a \in Atoms, b \in Atoms}

\* constants beyond 32 bits, written out in the source: value = hi * 2^32 + lo with hi >= 1 (or its negation).  No extent reaches
\* 2^32, so every one of them is outside; lo is chosen so that the low 32 bits alone would be a valid index.
BigCases == {[kind |-> "big", on |-> o, hi |-> h, lo |-> l, neg |-> ng, ok |-> FALSE] : o \in {"arr", "arr2", "vec", "matrow", "matcol"}, h \in {1, 2}, l \in {0, 1}, ng \in BOOLEAN}

VARIABLE case
Init == case \in IBinCases \cup BigCases \cup ArrCases \cup VecCases \cup MatCases \cup ITypCases \cup MaskCases \cup CompCases
Next == UNCHANGED case
Spec == Init /\ [][Next]_case

\* MaskOk, stated a second way: the letters come from one family and their positions are within the vector
FamilyOf(l) == IF l \in {"x", "y", "z", "w"} THEN 1 ELSE IF l \in {"r", "g", "b", "a"} THEN 2 ELSE 0
Pos(l) == CASE l \in {"x", "r"} -> 1 [] l \in {"y", "g"} -> 2 [] l \in {"z", "b"} -> 3 [] l \in {"w", "a"} -> 4 [] OTHER -> 9
MaskOk2(m, n) == /\ \A i \in 1..Len(m) : FamilyOf(m[i]) # 0 /\ Pos(m[i]) <= n
                 /\ \A i, j \in 1..Len(m) : FamilyOf(m[i]) = FamilyOf(m[j])
MaskFormulationsAgree == case.kind = "mask" => (case.ok = MaskOk2(case.mask, case.size))
Report == PrintT(ToJson(case))
=============================================================================
