------------------------------- MODULE MC_C13 -------------------------------
(***************************************************************************)
(* C13: the whole grid of static element-selection checks.                 *)
(*   arr   array shapes of 1-3 dimensions with extents 1-3, one constant   *)
(*         index from -1 to extent+1 at one position of a full access      *)
(*         chain (the other positions hold the valid index 0 or extent-1)  *)
(*   vec   vector sizes 2-4, constant index -1 .. size+1                   *)
(*   mat   float3x3 / float4x4, constant row and column -1 .. size+1       *)
(*   ityp  index expressions of every kind of type                         *)
(*   mask  every swizzle mask up to MaxMask letters over xyzw, rgba and    *)
(*         two foreign letters, on vectors of size 2-4                     *)
(* Expected verdicts come from NslStatic (ConstIndexOk, MaskOk).           *)
(***************************************************************************)
EXTENDS Integers, Sequences, FiniteSets, TLC, Json, NslStatic

CONSTANTS MaxMask

Shapes == UNION {[1..n -> 1..3] : n \in 1..3}
\* a full chain of constants: position k holds c, the others a valid index (0, or the last one when Hi)
Chain(sh, k, c, hi) == [j \in 1..Len(sh) |-> IF j = k THEN c ELSE IF hi THEN sh[j] - 1 ELSE 0]
ArrCases == UNION {{[kind |-> "arr", shape |-> sh, chain |-> Chain(sh, k, c, hi), pos |-> k, ok |-> ConstIndexOk(c, sh[k])] :
                       k \in 1..Len(sh), c \in -1..4, hi \in BOOLEAN} : sh \in Shapes}

VecCases == {[kind |-> "vec", size |-> n, c |-> c, ok |-> ConstIndexOk(c, n)] : n \in 2..4, c \in -1..5}
MatCases == {[kind |-> "mat", size |-> n, row |-> r, col |-> c, ok |-> ConstIndexOk(r, n) /\ ConstIndexOk(c, n)] :
               n \in {3, 4}, r \in -1..5, c \in -1..5}
\* index expression kinds: the index must have integer type (int or uint scalar); a non-constant index is not range-checked
ITypes == {"int-var", "uint-var", "float-var", "float-literal", "int2-var", "float2-var", "int-big-var"}
ITypCases == {[kind |-> "ityp", it |-> t, on |-> o, ok |-> t \in {"int-var", "uint-var", "int-big-var"}] : t \in ITypes, o \in {"arr", "vec", "mat"}}

Letters == {"x", "y", "z", "w", "r", "g", "b", "a", "q", "s"}
Masks == UNION {[1..n -> Letters] : n \in 1..MaxMask}
MaskCases == {[kind |-> "mask", size |-> n, mask |-> m, ok |-> MaskOk(m, n)] : n \in 2..4, m \in Masks}

VARIABLE case
Init == case \in ArrCases \cup VecCases \cup MatCases \cup ITypCases \cup MaskCases
Next == UNCHANGED case
Spec == Init /\ [][Next]_case

\* MaskOk, stated a second way: the letters come from one family and their positions are within the vector
FamilyOf(l) == IF l \in {"x", "y", "z", "w"} THEN 1 ELSE IF l \in {"r", "g", "b", "a"} THEN 2 ELSE 0
Pos(l) == CASE l \in {"x", "r"} -> 1 [] l \in {"y", "g"} -> 2 [] l \in {"z", "b"} -> 3 [] l \in {"w", "a"} -> 4 [] OTHER -> 9
MaskOk2(m, n) == /\ \A i \in 1..Len(m) : FamilyOf(m[i]) # 0 /\ Pos(m[i]) <= n
                 /\ \A i, j \in 1..Len(m) : FamilyOf(m[i]) = FamilyOf(m[j])
MaskFormulationsAgree == case.kind = "mask" => (case.ok = MaskOk2(case.mask, case.size))
Report == PrintT(ToJson(case))
=============================================================================
