------------------------------ MODULE NslStatic ------------------------------
(***************************************************************************)
(* Static acceptance rules of NSL over the program format of NslSem:       *)
(*   FlowOk    break / continue only lexically inside a loop of the same   *)
(*             function (property C11);                                    *)
(*   NamesOk   no two visible variables share a name, every use refers to  *)
(*             a visible declaration (property C12);                       *)
(*   IndexOk / MaskOk  constant indices inside the selected dimension,     *)
(*             integer index type, well-formed swizzle masks (C13).        *)
(* Each rule is stated twice where that is cheap (a recursive definition   *)
(* and an independent path-based one) and the enumeration modules check    *)
(* that the two formulations agree on every enumerated case.               *)
(***************************************************************************)
EXTENDS Integers, Sequences, FiniteSets

IsNone(x) == x.k = "none"
IsLoop(s) == s.k \in {"for", "while", "do"}

-----------------------------------------------------------------------------
(* C11                                                                      *)
RECURSIVE FlowS(_, _)
FlowS(s, inloop) ==
  CASE s.k \in {"break", "continue"} -> inloop
    [] s.k = "block" -> \A i \in 1..Len(s.ss) : FlowS(s.ss[i], inloop)
    [] s.k = "if" -> FlowS(s.t, inloop) /\ (IsNone(s.e) \/ FlowS(s.e, inloop))
    [] s.k \in {"while", "do"} -> FlowS(s.b, TRUE)
    [] s.k = "for" -> FlowS(s.b, TRUE)
    [] OTHER -> TRUE
FlowOk(prog) == \A i \in 1..Len(prog.funcs) : FlowS(prog.funcs[i].body, FALSE)

\* second formulation: the set of ancestor-kind paths to every break/continue; each must contain a loop
RECURSIVE JumpPaths(_, _)
JumpPaths(s, path) ==
  CASE s.k \in {"break", "continue"} -> {path}
    [] s.k = "block" -> UNION {JumpPaths(s.ss[i], path) : i \in 1..Len(s.ss)}
    [] s.k = "if" -> JumpPaths(s.t, Append(path, "if")) \cup (IF IsNone(s.e) THEN {} ELSE JumpPaths(s.e, Append(path, "else")))
    [] s.k \in {"while", "do", "for"} -> JumpPaths(s.b, Append(path, "loop"))
    [] OTHER -> {}
FlowOk2(prog) == \A i \in 1..Len(prog.funcs) :
                    \A p \in JumpPaths(prog.funcs[i].body, <<>>) : \E j \in 1..Len(p) : p[j] = "loop"

-----------------------------------------------------------------------------
(* C12                                                                      *)
RECURSIVE ExprNames(_)
ExprNames(e) ==
  CASE e.k = "var" -> {e.n}
    [] e.k = "inc" -> {e.n}
    [] e.k = "bin" -> ExprNames(e.l) \cup ExprNames(e.r)
    [] e.k \in {"asg", "casg"} -> ExprNames(e.lv) \cup ExprNames(e.e)
    [] e.k = "idx" -> ExprNames(e.a) \cup ExprNames(e.i)
    [] e.k \in {"mem", "swz"} -> ExprNames(e.a)
    [] e.k \in {"call", "cons"} -> UNION {ExprNames(e.args[i]) : i \in 1..Len(e.args)}
    [] OTHER -> {}

\* NS(s, vis) = [ok, vis]: s is acceptable when the names in vis are visible; vis afterwards (same scope)
RECURSIVE NS(_, _), NSeq(_, _, _)
NSeq(ss, i, r) == IF i > Len(ss) \/ ~r.ok THEN r ELSE NSeq(ss, i + 1, NS(ss[i], r.vis))
Scoped(s, vis) == NS(s, vis).ok                       \* a statement in its own scope: declarations do not escape
NS(s, vis) ==
  CASE s.k = "decl" -> [ok |-> s.n \notin vis /\ (IsNone(s.init) \/ ExprNames(s.init) \subseteq vis), vis |-> vis \cup {s.n}]
    [] s.k = "expr" -> [ok |-> ExprNames(s.e) \subseteq vis, vis |-> vis]
    [] s.k = "ret" -> [ok |-> IsNone(s.e) \/ ExprNames(s.e) \subseteq vis, vis |-> vis]
    [] s.k = "block" -> [ok |-> NSeq(s.ss, 1, [ok |-> TRUE, vis |-> vis]).ok, vis |-> vis]
    [] s.k = "if" -> [ok |-> ExprNames(s.c) \subseteq vis /\ Scoped(s.t, vis) /\ (IsNone(s.e) \/ Scoped(s.e, vis)), vis |-> vis]
    [] s.k = "while" -> [ok |-> ExprNames(s.c) \subseteq vis /\ Scoped(s.b, vis), vis |-> vis]
    [] s.k = "do" -> [ok |-> ExprNames(s.c) \subseteq vis /\ Scoped(s.b, vis), vis |-> vis]
    [] s.k = "for" ->
         LET i == IF IsNone(s.init) THEN [ok |-> TRUE, vis |-> vis] ELSE NS(s.init, vis) IN
         [ok |-> i.ok /\ (IsNone(s.c) \/ ExprNames(s.c) \subseteq i.vis) /\ (IsNone(s.inc) \/ ExprNames(s.inc) \subseteq i.vis)
                 /\ Scoped(s.b, i.vis),
          vis |-> vis]                                 \* the header variable is not visible after the loop
    [] OTHER -> [ok |-> TRUE, vis |-> vis]
GlobalSet(prog) == {prog.globals[i].n : i \in 1..Len(prog.globals)}
ParamSet(f) == {f.params[i].n : i \in 1..Len(f.params)}
NamesOk(prog) ==
  /\ Cardinality(GlobalSet(prog)) = Len(prog.globals)
  /\ \A i \in 1..Len(prog.funcs) :
        LET f == prog.funcs[i] IN
        /\ Cardinality(ParamSet(f)) = Len(f.params)
        /\ Scoped(f.body, GlobalSet(prog) \cup ParamSet(f))

\* second formulation: collect every (declaration | use, names visible there) pair and judge each on its own
RECURSIVE Sites(_, _), SitesSeq(_, _, _)
SitesSeq(ss, i, vis) == IF i > Len(ss) THEN {} ELSE
                          Sites(ss[i], vis) \cup SitesSeq(ss, i + 1, IF ss[i].k = "decl" THEN vis \cup {ss[i].n} ELSE vis)
Sites(s, vis) ==
  CASE s.k = "decl" -> {[kind |-> "decl", names |-> {s.n}, vis |-> vis]}
                       \cup (IF IsNone(s.init) THEN {} ELSE {[kind |-> "use", names |-> ExprNames(s.init), vis |-> vis]})
    [] s.k = "expr" -> {[kind |-> "use", names |-> ExprNames(s.e), vis |-> vis]}
    [] s.k = "ret" -> IF IsNone(s.e) THEN {} ELSE {[kind |-> "use", names |-> ExprNames(s.e), vis |-> vis]}
    [] s.k = "block" -> SitesSeq(s.ss, 1, vis)
    [] s.k = "if" -> {[kind |-> "use", names |-> ExprNames(s.c), vis |-> vis]} \cup Sites(s.t, vis)
                     \cup (IF IsNone(s.e) THEN {} ELSE Sites(s.e, vis))
    [] s.k \in {"while", "do"} -> {[kind |-> "use", names |-> ExprNames(s.c), vis |-> vis]} \cup Sites(s.b, vis)
    [] s.k = "for" ->
         LET v1 == IF IsNone(s.init) THEN vis ELSE vis \cup {s.init.n} IN
         (IF IsNone(s.init) THEN {} ELSE Sites(s.init, vis))
         \cup (IF IsNone(s.c) THEN {} ELSE {[kind |-> "use", names |-> ExprNames(s.c), vis |-> v1]})
         \cup (IF IsNone(s.inc) THEN {} ELSE {[kind |-> "use", names |-> ExprNames(s.inc), vis |-> v1]})
         \cup Sites(s.b, v1)
    [] OTHER -> {}
SiteOk(x) == IF x.kind = "decl" THEN x.names \cap x.vis = {} ELSE x.names \subseteq x.vis
NamesOk2(prog) ==
  /\ Cardinality(GlobalSet(prog)) = Len(prog.globals)
  /\ \A i \in 1..Len(prog.funcs) :
        LET f == prog.funcs[i] IN
        /\ Cardinality(ParamSet(f)) = Len(f.params)
        /\ \A x \in Sites(f.body, GlobalSet(prog) \cup ParamSet(f)) : SiteOk(x)

-----------------------------------------------------------------------------
(* C13                                                                      *)
\* a constant index c into a dimension of extent n
ConstIndexOk(c, n) == 0 <= c /\ c < n
\* a swizzle mask (sequence of letters) on a vector with n components
XYZW == <<"x", "y", "z", "w">>
RGBA == <<"r", "g", "b", "a">>
PosIn(l, fam) == IF \E i \in 1..4 : fam[i] = l THEN CHOOSE i \in 1..4 : fam[i] = l ELSE 0
MaskOk(mask, n) ==
  /\ Len(mask) >= 1 /\ Len(mask) <= 4
  /\ \/ \A i \in 1..Len(mask) : PosIn(mask[i], XYZW) \in 1..n
     \/ \A i \in 1..Len(mask) : PosIn(mask[i], RGBA) \in 1..n
=============================================================================
