------------------------------ MODULE NslTypes ------------------------------
(***************************************************************************)
(* The built-in types of NSL, operator typing (property C09), implicit     *)
(* conversions and overload resolution (property C10).                     *)
(*                                                                         *)
(* A primitive type is a record [k, c, r, n]:                              *)
(*   k  shape class  "s" scalar | "v" vector | "m" matrix                  *)
(*   c  component    "float" | "int" | "uint"                              *)
(*   r  rows  (vector: number of components; scalar: 1)                    *)
(*   n  columns (vector, scalar: 1)                                        *)
(* so every primitive type has a shape r x n; a vector counts as r x 1.    *)
(* Everything here is a pure operator: the modules that enumerate cases    *)
(* (MC_C09, MC_C10) and the source semantics (NslSem) all use these.       *)
(***************************************************************************)
EXTENDS NslArith, FiniteSets

Comps == {"float", "int", "uint"}
Scalar(c) == [k |-> "s", c |-> c, r |-> 1, n |-> 1]
Vec(c, size) == [k |-> "v", c |-> c, r |-> size, n |-> 1]
Mat(c, rows, cols) == [k |-> "m", c |-> c, r |-> rows, n |-> cols]
TFloat == Scalar("float")
TInt == Scalar("int")
TUInt == Scalar("uint")

\* the internal universe of the typing interface: 3 x (1 + 4 + 16) = 63 types
Universe == {Scalar(c) : c \in Comps} \cup {Vec(c, s) : c \in Comps, s \in 1..4}
            \cup {Mat(c, r, n) : c \in Comps, r \in 1..4, n \in 1..4}
\* the types a program can spell
Spellable == {Scalar(c) : c \in Comps} \cup {Vec(c, s) : c \in Comps, s \in 2..4}
             \cup {Mat("float", 3, 3), Mat("float", 4, 4)}

IsS(t) == t.k = "s"
IsV(t) == t.k = "v"
IsM(t) == t.k = "m"
SameShape(a, b) == a.k = b.k /\ a.r = b.r /\ a.n = b.n
WithComp(t, c) == [t EXCEPT !.c = c]

\* float > int > uint
Rank(c) == CASE c = "float" -> 3 [] c = "int" -> 2 [] c = "uint" -> 1
Wider(a, b) == IF Rank(a) >= Rank(b) THEN a ELSE b

Componentwise == {"+", "-", "%", "&&", "||"}

Reject == [ok |-> FALSE]
\* result type, and the types the two operands are converted to
Accept(res, l, r) == [ok |-> TRUE, res |-> res, l |-> l, r |-> r]

(***************************************************************************)
(* C09, clause by clause.                                                  *)
(***************************************************************************)
ResolveBinary(op, L, R) ==
  LET w == Wider(L.c, R.c) IN
  IF IsS(L) /\ IsS(R) THEN
       \* two scalars: every operator; comparisons yield int, the others the wider type
       IF op \in CmpOps THEN Accept(TInt, Scalar(w), Scalar(w))
       ELSE Accept(Scalar(w), Scalar(w), Scalar(w))
  ELSE IF op \in CmpOps THEN
       \* two equal-sized vectors give an int vector; everything else is rejected
       \* (two matrices: left undefined by the language - see Judged)
       IF IsV(L) /\ IsV(R) /\ L.r = R.r THEN Accept(Vec("int", L.r), WithComp(L, w), WithComp(R, w))
       ELSE Reject
  ELSE IF op \in Componentwise THEN
       IF (IsV(L) \/ IsM(L)) /\ SameShape(L, R) THEN Accept(WithComp(L, w), WithComp(L, w), WithComp(R, w))
       ELSE Reject
  ELSE IF op = "/" THEN
       IF IsS(R) THEN Accept(WithComp(L, w), WithComp(L, w), Scalar(w)) ELSE Reject
  ELSE \* op = "*"
       IF IsS(L) THEN Accept(WithComp(R, w), Scalar(w), WithComp(R, w))
       ELSE IF IsS(R) THEN Accept(WithComp(L, w), WithComp(L, w), Scalar(w))
       ELSE IF IsM(L) /\ L.n = R.r THEN      \* matrix x (matrix | vector), inner dimensions agree
            Accept(IF R.n = 1 /\ IsV(R) THEN Vec(w, L.r)
                   ELSE IF R.n = 1 THEN Vec(w, L.r)       \* an r x 1 result is a vector
                   ELSE Mat(w, L.r, R.n),
                   WithComp(L, w), WithComp(R, w))
       ELSE Reject                           \* vector x vector, vector x matrix, mismatching inner dimensions

(***************************************************************************)
(* What the statement leaves open is not judged:                           *)
(*  - comparing two matrices ("left undefined");                           *)
(*  - one-component vectors (not spellable; the statement has no rule that *)
(*    says whether they behave as vectors or as scalars);                  *)
(*  - vector x one-row matrix (an outer product if a vector is read as an  *)
(*    r x 1 matrix, "every other combination" if it is not).               *)
(* For comparisons the operand conversion types are not judged either      *)
(* ("converted to the component type of the result" cannot be meant        *)
(* literally when a float comparison yields int).                          *)
(***************************************************************************)
OneVec(t) == IsV(t) /\ t.r = 1
Judged(op, L, R) == /\ ~(op \in CmpOps /\ IsM(L) /\ IsM(R))
                    /\ ~OneVec(L) /\ ~OneVec(R)
                    /\ ~(op = "*" /\ IsV(L) /\ IsM(R) /\ R.r = 1)
OperandsJudged(op) == op \notin CmpOps

(***************************************************************************)
(* Laws of the rule table (checked by TLC over the whole universe).        *)
(***************************************************************************)
\* accepted => the result has the shape the statement prescribes and the wider component (int for comparisons)
ResultLaw(op, L, R) ==
  LET x == ResolveBinary(op, L, R) IN
  x.ok => /\ (op \in CmpOps => x.res.c = "int" /\ x.res.k = (IF IsS(L) THEN "s" ELSE "v"))
          /\ (op \notin CmpOps => x.res.c = Wider(L.c, R.c) /\ x.l.c = x.res.c /\ x.r.c = x.res.c)
          /\ (op = "*" /\ ~IsS(L) /\ ~IsS(R) => x.res.r = L.r /\ x.res.n = R.n)
          /\ SameShape(x.l, L) /\ SameShape(x.r, R)
\* the component-wise operators and the comparisons are symmetric in their operand shapes
SymmetryLaw(op, L, R) ==
  op \in Componentwise \cup CmpOps =>
     LET x == ResolveBinary(op, L, R) y == ResolveBinary(op, R, L) IN
     x.ok = y.ok /\ (x.ok => x.res = y.res)
\* the matrix product is associative on shapes: (A*B)*C is typed iff A*(B*C) is, with the same type
AssocLaw(A, B, C) ==
  (IsM(A) /\ IsM(B) /\ IsM(C) /\ B.n > 1 /\ C.n > 1) =>   \* no column (= vector) intermediates
     LET ab == ResolveBinary("*", A, B)  bc == ResolveBinary("*", B, C)
         l == IF ab.ok THEN ResolveBinary("*", ab.res, C) ELSE Reject
         r == IF bc.ok THEN ResolveBinary("*", A, bc.res) ELSE Reject
     IN (l.ok = r.ok) /\ (l.ok => l.res = r.res)
\* spellable operands give a spellable result except for matrix shapes the language cannot name
Closed(op, L, R) == LET x == ResolveBinary(op, L, R) IN x.ok => x.res \in Universe

(***************************************************************************)
(* Conversions and overload resolution (C10).                              *)
(***************************************************************************)
\* an argument of type a can be passed for a parameter of type p
Convertible(a, p) == SameShape(a, p)
ConvCost(a, p) == IF a = p THEN 0 ELSE 1
\* sig, args: sequences of types
Viable(sig, args) == Len(sig) = Len(args) /\ \A i \in 1..Len(sig) : Convertible(args[i], sig[i])
RECURSIVE SumCost(_, _, _)
SumCost(sig, args, i) == IF i > Len(sig) THEN 0 ELSE ConvCost(args[i], sig[i]) + SumCost(sig, args, i + 1)
Cost(sig, args) == SumCost(sig, args, 1)

\* cands: sequence of signatures declared under the called name (declaration order).
\* Result: [kind |-> "chosen", which |-> index] | "unknown" | "nomatch" | "ambiguous"
Best(cands, args) ==
  IF Len(cands) = 0 THEN [kind |-> "unknown", which |-> 0] ELSE
  LET via == {i \in 1..Len(cands) : Viable(cands[i], args)} IN
  IF via = {} THEN [kind |-> "nomatch", which |-> 0] ELSE
  LET best == {i \in via : \A j \in via : Cost(cands[i], args) <= Cost(cands[j], args)} IN
  IF Cardinality(best) = 1 THEN [kind |-> "chosen", which |-> CHOOSE i \in best : TRUE]
  ELSE [kind |-> "ambiguous", which |-> 0]

TypeName(t) == CASE IsS(t) -> t.c
                 [] IsV(t) -> t.c \o (CASE t.r = 1 -> "1" [] t.r = 2 -> "2" [] t.r = 3 -> "3" [] t.r = 4 -> "4")
                 [] IsM(t) -> t.c \o (CASE t.r = 1 -> "1" [] t.r = 2 -> "2" [] t.r = 3 -> "3" [] t.r = 4 -> "4") \o "x"
                                  \o (CASE t.n = 1 -> "1" [] t.n = 2 -> "2" [] t.n = 3 -> "3" [] t.n = 4 -> "4")
=============================================================================
