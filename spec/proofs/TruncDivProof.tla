--------------------------- MODULE TruncDivProof ---------------------------
(* Integer division of the NSL semantics (spec/NslArith.tla, TruncDiv) truncates toward zero: proved for ALL integers with TLAPS. *)
EXTENDS Integers, TLAPS

Abs(x) == IF x < 0 THEN -x ELSE x
TruncDiv(a, b) == LET q == Abs(a) \div Abs(b) IN IF (a < 0) = (b < 0) THEN q ELSE -q

LEMMA DivFacts == \A x, y \in Int : (x >= 0 /\ y > 0) => /\ (x \div y) \in Int
                                                         /\ y * (x \div y) <= x
                                                         /\ x < y * (x \div y) + y
                                                         /\ x \div y >= 0
                                                         /\ (x = 0 => x \div y = 0)
  BY SMT

THEOREM TruncTowardZero ==
  \A a, b \in Int : b # 0 =>
     /\ Abs(TruncDiv(a, b) * b) <= Abs(a)
     /\ Abs(a - TruncDiv(a, b) * b) < Abs(b)
     /\ ((a >= 0 /\ b > 0) => TruncDiv(a, b) = a \div b)
     /\ TruncDiv(-a, b) = -TruncDiv(a, b)
<1> TAKE a, b \in Int
<1> HAVE b # 0
<1> DEFINE x == Abs(a)
<1> DEFINE y == Abs(b)
<1> DEFINE q == x \div y
<1>1. x \in Int /\ y \in Int /\ x >= 0 /\ y > 0
  BY DEF Abs
<1>2. q \in Int /\ y * q <= x /\ x < y * q + y /\ q >= 0 /\ (x = 0 => q = 0)
  BY <1>1, DivFacts
<1>3. TruncDiv(a, b) = IF (a < 0) = (b < 0) THEN q ELSE -q
  BY DEF TruncDiv, Abs
<1> DEFINE z == y * q
<1>3a. z \in Int /\ z <= x /\ x < z + y /\ z >= 0
  BY <1>1, <1>2
<1>3b. TruncDiv(a, b) * b = IF a < 0 THEN -z ELSE z
  <2>1. CASE a >= 0 /\ b > 0
    BY <2>1, <1>2, <1>3 DEF Abs
  <2>2. CASE a >= 0 /\ b < 0
    BY <2>2, <1>2, <1>3 DEF Abs
  <2>3. CASE a < 0 /\ b > 0
    BY <2>3, <1>2, <1>3 DEF Abs
  <2>4. CASE a < 0 /\ b < 0
    BY <2>4, <1>2, <1>3 DEF Abs
  <2> QED BY <2>1, <2>2, <2>3, <2>4
<1> HIDE DEF z
<1>4. Abs(TruncDiv(a, b) * b) <= Abs(a)
  BY <1>3a, <1>3b DEF Abs
<1>5. Abs(a - TruncDiv(a, b) * b) < Abs(b)
  BY <1>3a, <1>3b DEF Abs
<1>6. (a >= 0 /\ b > 0) => TruncDiv(a, b) = a \div b
  BY <1>3 DEF Abs
<1>7. TruncDiv(-a, b) = -TruncDiv(a, b)
  <2>0. Abs(-a) = x
    BY DEF Abs
  <2>1. TruncDiv(-a, b) = IF (-a < 0) = (b < 0) THEN q ELSE -q
    BY <2>0 DEF TruncDiv, Abs
  <2>2. CASE a > 0
    BY <2>2, <2>1, <1>3, <1>2
  <2>3. CASE a < 0
    BY <2>3, <2>1, <1>3, <1>2
  <2>4. CASE a = 0
    <3>1. x = 0
      BY <2>4 DEF Abs
    <3>2. q = 0
      BY <3>1, <1>2
    <3> QED BY <3>2, <2>1, <1>3
  <2> QED BY <2>2, <2>3, <2>4
<1> QED BY <1>4, <1>5, <1>6, <1>7
=============================================================================
